// U-sqlread: what the SQLite collections ask of the database when they READ (and delete) -- C10: "a query returns exactly the records satisfying
// its AND/OR filter, ordered by the requested keys, paged by offset/limit with the true total count", find / exists / delete by id.
// For every collection `query` issues exactly two statements: COUNT(id) over the filtered table with NO window (the true total count) and the page
// SELECT of every column in the order the row mapper reads them, with the same filter (the translation of U-sqlq), the requested order keys in
// order and direction, LIMIT = the query's limit and OFFSET = its offset; the answer carries that count, those rows and the page arithmetic.
// The sea-query builder chains return `&mut Self` (no Verus support): each chain is rewritten (R7, exact token match, lists captured verbatim) into
// one call of a prelude function.  TRUSTED: sea-query builds the SQL its calls say, `#[derive(Iden)]` names a column by the snake_case of its
// variant, rusqlite executes the statements, into_query (proved in U-sqlq) is used through its contract.
//@@ unit U-sqlread
//@@ default props=C10 rewrites=R1,R2,R3,R5,R13,R15 ghost="Tracked(db): Tracked<&mut DbR>" ghostarg="Tracked(db)"
//@@ heapmethods run_count run_rows run_row run_scalar execute
use vstd::prelude::*;
verus! {
//@@ include prelude/sqlcond.rs
// into_query (store/sqlite/src/collection.rs): PROVED in U-sqlq, used here through its contract
#[verifier::external_body]
pub fn into_query(q: &Query) -> (r: Condition)
    requires forall|i: int, j: int| 0 <= i < q.conds@.len() && 0 <= j < q.conds@[i].conds@.len() ==> translatable(#[trigger] q.conds@[i].conds@[j])
    ensures r@ == tr_query(*q) { unimplemented!() }
impl Condition {
    // sea_query Condition::is_empty: no sub-condition
    #[verifier::external_body]
    pub fn is_empty(&self) -> (r: bool) ensures r == (match self@ { SqlCond::All(s) => s.len() == 0, SqlCond::Any(s) => s.len() == 0, _ => false }) { unimplemented!() }
}
impl Clone for Condition { #[verifier::external_body] fn clone(&self) -> (r: Self) ensures r@ == self@ { unimplemented!() } }
impl Query {
//@@ extract file=acts/src/store/query.rs in="impl Query" item="fn limit" name=Query::limit
//@@ opt noghost
//@@ spec
    ensures ret > 0, ret as int == q_limit(*self)
//@@ end
//@@ extract file=acts/src/store/query.rs in="impl Query" item="fn offset" name=Query::offset
//@@ opt noghost
//@@ spec
    ensures ret == self.offset
//@@ end
//@@ extract file=acts/src/store/query.rs in="impl Query" item="fn order_by" name=Query::order_by
//@@ opt noghost
//@@ spec
    ensures *ret == self.order_by
//@@ end
}
pub open spec fn q_limit(q: Query) -> int { if q.limit == 0 { 50 } else { q.limit as int } }
// oracle: the filter of both statements (none when the query has no condition), the order keys in order with their direction
pub open spec fn filter_of(q: Query) -> Option<SqlCond> { if q.conds@.len() == 0 { None } else { Some(tr_query(q)) } }
pub open spec fn order_of(o: Seq<(String, bool)>) -> Seq<(Seq<char>, bool)> { o.map_values(|e: (String, bool)| (e.0@, e.1)) }

pub ghost struct SelectAbs { pub table: Seq<char>, pub columns: Seq<Seq<char>>, pub count_of: Option<Seq<char>>, pub filter: Option<SqlCond>, pub id_eq: Option<Seq<char>>,
    pub order: Seq<(Seq<char>, bool)>, pub limit: Option<int>, pub offset: Option<int> }
pub ghost enum StmtR { Select(SelectAbs), Delete { table: Seq<char>, id_col: Seq<char>, id: Seq<char> } }
pub tracked struct DbR { pub ghost executed: Seq<StmtR>, pub ghost rows: int }     // rows: the content of the database (opaque; only deletes change it)
pub uninterp spec fn count_result(s: StmtR, rows: int) -> usize;
pub uninterp spec fn scalar_result(s: StmtR, rows: int) -> i64;
pub uninterp spec fn rows_result<T>(s: StmtR, rows: int) -> Seq<T>;
pub uninterp spec fn after_delete(s: StmtR, rows: int) -> int;
pub trait ColRef: Sized { spec fn cname(&self) -> Seq<char>; }
impl ColRef for SeaAlias { open spec fn cname(&self) -> Seq<char> { self.name@ } }
pub enum SeaOrder { Asc, Desc }
pub struct SelectStatement { pub s: Ghost<SelectAbs> }
pub struct Built { pub b: Ghost<StmtR> }
pub open spec fn names_of<I: ColRef>(cols: Seq<I>) -> Seq<Seq<char>> { cols.map_values(|c: I| c.cname()) }
// R7: SeaQuery::select() + .from(T).expr(count(col(I)))
#[verifier::external_body]
pub fn sel_count<T: ColRef, I: ColRef>(table: T, col: I) -> (r: SelectStatement)
    ensures r.s@ == (SelectAbs { table: table.cname(), columns: Seq::empty(), count_of: Some(col.cname()), filter: None, id_eq: None, order: Seq::empty(), limit: None, offset: None }) { unimplemented!() }
// R7: SeaQuery::select() + .columns([..]).from(T)
#[verifier::external_body]
pub fn sel_rows<T: ColRef, const N: usize>(table: T, cols: [T; N]) -> (r: SelectStatement)
    ensures r.s@ == (SelectAbs { table: table.cname(), columns: names_of(cols@), count_of: None, filter: None, id_eq: None, order: Seq::empty(), limit: None, offset: None }) { unimplemented!() }
// R7: SeaQuery::select().from(T).columns([..]).and_where(col(I).eq(id)).build_rusqlite(..)
#[verifier::external_body]
pub fn sel_by_id<T: ColRef, const N: usize>(table: T, cols: [T; N], idc: T, id: &str) -> (r: Built)
    ensures r.b@ == StmtR::Select(SelectAbs { table: table.cname(), columns: names_of(cols@), count_of: None, filter: None, id_eq: if idc.cname() == "id"@ { Some(id@) } else { None }, order: Seq::empty(), limit: None, offset: None }) { unimplemented!() }
// R7: SeaQuery::select().from(T).expr(count(col(I))).and_where(col(J).eq(id)).build_rusqlite(..)
#[verifier::external_body]
pub fn sel_count_by_id<T: ColRef>(table: T, cnt: T, idc: T, id: &str) -> (r: Built)
    ensures r.b@ == StmtR::Select(SelectAbs { table: table.cname(), columns: Seq::empty(), count_of: Some(cnt.cname()), filter: None, id_eq: if idc.cname() == "id"@ { Some(id@) } else { None }, order: Seq::empty(), limit: None, offset: None }) { unimplemented!() }
// R7: SeaQuery::delete().from_table(T).and_where(col(I).eq(id)).build_rusqlite(..)
#[verifier::external_body]
pub fn del_by_id<T: ColRef>(table: T, idc: T, id: &str) -> (r: Built)
    ensures r.b@ == (StmtR::Delete { table: table.cname(), id_col: idc.cname(), id: id@ }) { unimplemented!() }
impl SelectStatement {
    #[verifier::external_body]
    pub fn cond_where(&mut self, c: Condition) ensures final(self).s@ == (SelectAbs { filter: Some(c@), ..old(self).s@ }) { unimplemented!() }
    #[verifier::external_body]
    pub fn order_by(&mut self, a: SeaAlias, o: SeaOrder) ensures final(self).s@ == (SelectAbs { order: old(self).s@.order.push((a.name@, o is Desc)), ..old(self).s@ }) { unimplemented!() }
    // R7: `.limit(l).offset(o).build_rusqlite(SqliteQueryBuilder)`
    #[verifier::external_body]
    pub fn build_page(&mut self, limit: u64, offset: u64) -> (r: Built)
        ensures r.b@ == StmtR::Select(SelectAbs { limit: Some(limit as int), offset: Some(offset as int), ..old(self).s@ }) { unimplemented!() }
    #[verifier::external_body]
    pub fn build(&self) -> (r: Built) ensures r.b@ == StmtR::Select(self.s@) { unimplemented!() }
}
pub struct ActError {}
pub type Result<T> = std::result::Result<T, ActError>;
#[verifier::external_body]
pub struct Conn { _p: u8 }
impl Conn {
    #[verifier::external_body]
    pub fn run_count(&self, b: &Built, Tracked(db): Tracked<&mut DbR>) -> (r: Result<usize>)
        ensures r is Ok ==> *final(db) == (DbR { executed: old(db).executed.push(b.b@), ..*old(db) }) && r->Ok_0 == count_result(b.b@, old(db).rows), r is Err ==> *final(db) == *old(db) { unimplemented!() }
    #[verifier::external_body]
    pub fn run_scalar(&self, b: &Built, Tracked(db): Tracked<&mut DbR>) -> (r: Result<i64>)
        ensures r is Ok ==> *final(db) == (DbR { executed: old(db).executed.push(b.b@), ..*old(db) }) && r->Ok_0 == scalar_result(b.b@, old(db).rows), r is Err ==> *final(db) == *old(db) { unimplemented!() }
    #[verifier::external_body]
    pub fn run_rows<T>(&self, b: &Built, Tracked(db): Tracked<&mut DbR>) -> (r: Result<Vec<T>>)
        ensures r is Ok ==> *final(db) == (DbR { executed: old(db).executed.push(b.b@), ..*old(db) }) && r->Ok_0@ == rows_result::<T>(b.b@, old(db).rows), r is Err ==> *final(db) == *old(db) { unimplemented!() }
    #[verifier::external_body]
    pub fn run_row<T>(&self, b: &Built, Tracked(db): Tracked<&mut DbR>) -> (r: Result<T>)
        ensures r is Ok ==> *final(db) == (DbR { executed: old(db).executed.push(b.b@), ..*old(db) }), r is Err ==> *final(db) == *old(db) { unimplemented!() }
    #[verifier::external_body]
    pub fn execute(&self, b: &Built, Tracked(db): Tracked<&mut DbR>) -> (r: Result<usize>)
        ensures r is Ok ==> *final(db) == (DbR { executed: old(db).executed.push(b.b@), rows: after_delete(b.b@, old(db).rows) }), r is Err ==> *final(db) == *old(db) { unimplemented!() }
}
#[verifier::external_body]
pub struct DbConnection { _p: u8 }
impl DbConnection { #[verifier::external_body] pub fn get_conn(&self) -> (r: Conn) { unimplemented!() } }
//@@ extract file=acts/src/store/mod.rs item="struct PageData" name=PageData
//@@ end
#[verifier::external_body]
pub fn div_ceil_usize(a: usize, b: usize) -> (r: usize) requires b > 0 ensures r as int == (a as int + b as int - 1) / (b as int) { unimplemented!() }

// ---------------------------------------------------------------- tasks
pub mod task {
use super::*;
//@@ extract file=store/sqlite/src/collection/task.rs item="enum CollectionIden" name=task::CollectionIden
//@@ opt dropderive=Iden
//@@ rw R17 `enum CollectionIden` => `pub enum CollectionIden`
//@@ end
// `#[derive(Iden)] #[iden = "tasks"]`: the column name is the snake_case of the variant (ASSUMED, derive-generated)
impl ColRef for CollectionIden {
    open spec fn cname(&self) -> Seq<char> {
        match self { CollectionIden::Table => "tasks"@, CollectionIden::Id => "id"@, CollectionIden::Pid => "pid"@, CollectionIden::Tid => "tid"@, CollectionIden::NodeData => "node_data"@, CollectionIden::Kind => "kind"@, CollectionIden::Prev => "prev"@, CollectionIden::Name => "name"@, CollectionIden::State => "state"@, CollectionIden::Data => "data"@, CollectionIden::Err => "err"@, CollectionIden::StartTime => "start_time"@, CollectionIden::EndTime => "end_time"@, CollectionIden::Hooks => "hooks"@, CollectionIden::Timestamp => "timestamp"@, }
    }
}
// oracle: the row mapper reads the columns of the record in this order (U-sqlmap: from_row reads every field from the column of its own name)
pub open spec fn all_cols() -> Seq<Seq<char>> { seq!["id"@, "pid"@, "tid"@, "node_data"@, "kind"@, "prev"@, "name"@, "state"@, "data"@, "err"@, "start_time"@, "end_time"@, "hooks"@, "timestamp"@] }
pub struct TaskCollection { pub conn: DbConnection }
pub struct Rec {}     // data::Task (its mapper `from_row` is under contract in U-sqlmap)
impl TaskCollection {
//@@ extract file=store/sqlite/src/collection/task.rs in="impl DbCollection for TaskCollection" item="fn query" name=sqlite::Task::query
//@@ rw R7 `acts :: PageData < Self :: Item >` => `PageData<Rec>`
//@@ rw R7 `self . conn . get ( ) . unwrap ( )` => `self.conn.get_conn()`
//@@ rw R7 `let mut count_query = SeaQuery :: select ( ) ; count_query . from ( $T:chain ) . expr ( SeaFunc :: count ( SeaExpr :: col ( $I:args ) ) ) ;` => `let mut count_query = sel_count($T, $I);`
//@@ rw R7 `let mut query = SeaQuery :: select ( ) ; query . columns ( [ $C:args ] ) . from ( $T:chain ) ;` => `let mut query = sel_rows($T, [$C]);`
//@@ rw R7 `let ( sql , values ) = query . limit ( $L:args ) . offset ( $O:args ) . build_rusqlite ( SqliteQueryBuilder ) ;` => `let built = query.build_page($L, $O);`
//@@ rw R7 `let ( count_sql , count_values ) = count_query . build_rusqlite ( SqliteQueryBuilder ) ;` => `let count_built = count_query.build();`
//@@ rw R7 `conn . prepare ( count_sql . as_str ( ) ) . map_err ( map_db_err ) ? . query_row :: < usize , _ , _ > ( & * count_values . as_params ( ) , | row | row . get ( 0 ) ) . map_err ( map_db_err ) ?` => `conn.run_count(&count_built)?`
//@@ rw R7 `conn . prepare ( & sql ) . map_err ( map_db_err ) ? . query_map ( & * values . as_params ( ) , Self :: Item :: from_row ) . map_err ( map_db_err ) ? . map ( | v | v . unwrap ( ) ) . collect :: < Vec < _ > > ( )` => `conn.run_rows::<Rec>(&built)?`
//@@ rw R7 `count . div_ceil ( q . limit ( ) )` => `div_ceil_usize(count, q.limit())`
//@@ proof after=sel_rows#1
        proof {
            //# Q4-the-page-statement-names-every-column-of-the-record-in-mapper-order
            assert(query.s@.columns =~= all_cols());
        }
//@@ spec
    requires
        forall|i: int, j: int| 0 <= i < q.conds@.len() && 0 <= j < q.conds@[i].conds@.len() ==> translatable(#[trigger] q.conds@[i].conds@[j]),
        q.offset < usize::MAX,
    ensures
        //# Q4-a-query-runs-one-count-statement-and-one-page-statement-and-writes-nothing
        ret is Ok ==> final(db).executed.len() == old(db).executed.len() + 2 && final(db).rows == old(db).rows,
        //# Q4-the-count-statement-counts-the-filtered-records-of-the-table-without-any-window
        ret is Ok ==> final(db).executed[old(db).executed.len() as int] == (StmtR::Select(SelectAbs { table: "tasks"@, columns: Seq::empty(), count_of: Some("id"@),
            filter: filter_of(*q), id_eq: None, order: Seq::empty(), limit: None, offset: None })),
        //# Q4-the-page-statement-selects-every-column-in-mapper-order-filtered-ordered-by-the-requested-keys-and-windowed
        ret is Ok ==> final(db).executed[old(db).executed.len() as int + 1] == (StmtR::Select(SelectAbs { table: "tasks"@, columns: all_cols(), count_of: None,
            filter: filter_of(*q), id_eq: None, order: order_of(q.order_by@), limit: Some(q_limit(*q)), offset: Some(q.offset as int) })),
        //# Q3-the-answer-carries-the-count-of-the-count-statement-the-rows-of-the-page-statement-and-the-page-arithmetic
        ret is Ok ==> ret->Ok_0.count == count_result(final(db).executed[old(db).executed.len() as int], old(db).rows)
            && ret->Ok_0.rows@ == rows_result::<Rec>(final(db).executed[old(db).executed.len() as int + 1], old(db).rows)
            && ret->Ok_0.page_size as int == q_limit(*q) && ret->Ok_0.page_count as int == (ret->Ok_0.count as int + q_limit(*q) - 1) / q_limit(*q)
            && ret->Ok_0.page_num as int == q.offset as int / q_limit(*q) + 1,
//@@ loop 1
        invariant
            //# order-keys-so-far
            __v1@ == q.order_by@ && query.s@ == (SelectAbs { order: order_of(q.order_by@.take(__i1 as int)), ..query.s@ }) && query.s@.table == "tasks"@ && query.s@.columns == all_cols()
                && query.s@.count_of is None && query.s@.filter == filter_of(*q) && query.s@.id_eq is None && query.s@.limit is None && query.s@.offset is None,
//@@ proof at=loop1
                proof {
                    let o = q.order_by@;
                    assert(o.take(__i1 as int + 1) =~= o.take(__i1 as int).push(o[__i1 as int]));
                    assert(order_of(o.take(__i1 as int + 1)) =~= order_of(o.take(__i1 as int)).push((o[__i1 as int].0@, o[__i1 as int].1)));
                }
//@@ proof at=afterloop1
            proof { assert(q.order_by@.take(q.order_by@.len() as int) =~= q.order_by@); }
//@@ proof before=is_empty#2
        proof { assert(order_of(q.order_by@.take(0)) =~= Seq::<(Seq<char>, bool)>::empty()); if q.order_by@.len() == 0 { assert(order_of(q.order_by@) =~= Seq::<(Seq<char>, bool)>::empty()); } }
//@@ end
//@@ extract file=store/sqlite/src/collection/task.rs in="impl DbCollection for TaskCollection" item="fn find" name=sqlite::Task::find
//@@ rw R7 `Result < Self :: Item >` => `Result<Rec>`
//@@ rw R7 `self . conn . get ( ) . unwrap ( )` => `self.conn.get_conn()`
//@@ rw R7 `let ( sql , values ) = SeaQuery :: select ( ) . from ( $T:chain ) . columns ( [ $C:args ] ) . and_where ( SeaExpr :: col ( $I:chain ) . eq ( id ) ) . build_rusqlite ( SqliteQueryBuilder ) ;` => `let built = sel_by_id($T, [$C], $I, id);`
//@@ rw R7 `let mut stmt = conn . prepare ( sql . as_str ( ) ) . map_err ( map_db_err ) ? ;` => ``
//@@ rw R7 `stmt . query_row ( & * values . as_params ( ) , Self :: Item :: from_row ) . map_err ( map_db_err ) ?` => `conn.run_row::<Rec>(&built)?`
//@@ proof after=sel_by_id#1
        proof {
            //# Q4-find-names-every-column-of-the-record-in-mapper-order
            assert(built.b@->Select_0.columns =~= all_cols());
        }
//@@ spec
    ensures
        //# Q4-find-selects-every-column-in-mapper-order-of-the-row-with-that-id
        ret is Ok ==> final(db).executed == old(db).executed.push(StmtR::Select(SelectAbs { table: "tasks"@, columns: all_cols(), count_of: None, filter: None, id_eq: Some(id@), order: Seq::empty(), limit: None, offset: None }))
            && final(db).rows == old(db).rows,
//@@ end
//@@ extract file=store/sqlite/src/collection/task.rs in="impl DbCollection for TaskCollection" item="fn exists" name=sqlite::Task::exists
//@@ rw R7 `self . conn . get ( ) . unwrap ( )` => `self.conn.get_conn()`
//@@ rw R7 `let ( sql , values ) = SeaQuery :: select ( ) . from ( $T:chain ) . expr ( SeaFunc :: count ( SeaExpr :: col ( $I:chain ) ) ) . and_where ( SeaExpr :: col ( $J:chain ) . eq ( id ) ) . build_rusqlite ( SqliteQueryBuilder ) ;` => `let built = sel_count_by_id($T, $I, $J, id);`
//@@ rw R7 `let mut stmt = conn . prepare ( sql . as_str ( ) ) . map_err ( map_db_err ) ? ;` => ``
//@@ rw R7 `stmt . query_row ( & * values . as_params ( ) , | row | row . get :: < usize , i64 > ( 0 ) ) . map_err ( map_db_err ) ?` => `conn.run_scalar(&built)?`
//@@ spec
    ensures
        //# Q4-exists-counts-the-rows-with-that-id
        ret is Ok ==> final(db).executed == old(db).executed.push(StmtR::Select(SelectAbs { table: "tasks"@, columns: Seq::empty(), count_of: Some("id"@), filter: None, id_eq: Some(id@), order: Seq::empty(), limit: None, offset: None }))
            && final(db).rows == old(db).rows && ret->Ok_0 == (scalar_result(final(db).executed.last(), old(db).rows) > 0),
//@@ end
//@@ extract file=store/sqlite/src/collection/task.rs in="impl DbCollection for TaskCollection" item="fn delete" name=sqlite::Task::delete
//@@ rw R7 `self . conn . get ( ) . unwrap ( )` => `self.conn.get_conn()`
//@@ rw R7 `let ( sql , values ) = SeaQuery :: delete ( ) . from_table ( $T:chain ) . and_where ( SeaExpr :: col ( $I:chain ) . eq ( id ) ) . build_rusqlite ( SqliteQueryBuilder ) ;` => `let built = del_by_id($T, $I, id);`
//@@ rw R7 `conn . execute ( sql . as_str ( ) , & * values . as_params ( ) ) . map_err ( map_db_err ) ?` => `conn.execute(&built)?`
//@@ spec
    ensures
        //# Q4-delete-removes-the-row-with-that-id-from-its-own-table-and-nothing-else
        ret is Ok ==> final(db).executed == old(db).executed.push(StmtR::Delete { table: "tasks"@, id_col: "id"@, id: id@ }),
        //# Q4-a-refused-delete-writes-nothing
        ret is Err ==> *final(db) == *old(db),
//@@ end
}
}
// ---------------------------------------------------------------- procs
pub mod proc {
use super::*;
//@@ extract file=store/sqlite/src/collection/proc.rs item="enum CollectionIden" name=proc::CollectionIden
//@@ opt dropderive=Iden
//@@ rw R17 `enum CollectionIden` => `pub enum CollectionIden`
//@@ end
// `#[derive(Iden)] #[iden = "procs"]`: the column name is the snake_case of the variant (ASSUMED, derive-generated)
impl ColRef for CollectionIden {
    open spec fn cname(&self) -> Seq<char> {
        match self { CollectionIden::Table => "procs"@, CollectionIden::Id => "id"@, CollectionIden::State => "state"@, CollectionIden::Mid => "mid"@, CollectionIden::Name => "name"@, CollectionIden::StartTime => "start_time"@, CollectionIden::EndTime => "end_time"@, CollectionIden::Timestamp => "timestamp"@, CollectionIden::Model => "model"@, CollectionIden::Env => "env"@, CollectionIden::Err => "err"@, }
    }
}
// oracle: the row mapper reads the columns of the record in this order (U-sqlmap: from_row reads every field from the column of its own name)
pub open spec fn all_cols() -> Seq<Seq<char>> { seq!["id"@, "state"@, "mid"@, "name"@, "start_time"@, "end_time"@, "timestamp"@, "model"@, "env"@, "err"@] }
pub struct ProcCollection { pub conn: DbConnection }
pub struct Rec {}     // data::Proc (its mapper `from_row` is under contract in U-sqlmap)
impl ProcCollection {
//@@ extract file=store/sqlite/src/collection/proc.rs in="impl DbCollection for ProcCollection" item="fn query" name=sqlite::Proc::query
//@@ rw R7 `acts :: PageData < Self :: Item >` => `PageData<Rec>`
//@@ rw R7 `self . conn . get ( ) . unwrap ( )` => `self.conn.get_conn()`
//@@ rw R7 `let mut count_query = SeaQuery :: select ( ) ; count_query . from ( $T:chain ) . expr ( SeaFunc :: count ( SeaExpr :: col ( $I:args ) ) ) ;` => `let mut count_query = sel_count($T, $I);`
//@@ rw R7 `let mut query = SeaQuery :: select ( ) ; query . columns ( [ $C:args ] ) . from ( $T:chain ) ;` => `let mut query = sel_rows($T, [$C]);`
//@@ rw R7 `let ( sql , values ) = query . limit ( $L:args ) . offset ( $O:args ) . build_rusqlite ( SqliteQueryBuilder ) ;` => `let built = query.build_page($L, $O);`
//@@ rw R7 `let ( count_sql , count_values ) = count_query . build_rusqlite ( SqliteQueryBuilder ) ;` => `let count_built = count_query.build();`
//@@ rw R7 `conn . prepare ( count_sql . as_str ( ) ) . map_err ( map_db_err ) ? . query_row :: < usize , _ , _ > ( & * count_values . as_params ( ) , | row | row . get ( 0 ) ) . map_err ( map_db_err ) ?` => `conn.run_count(&count_built)?`
//@@ rw R7 `conn . prepare ( & sql ) . map_err ( map_db_err ) ? . query_map ( & * values . as_params ( ) , Self :: Item :: from_row ) . map_err ( map_db_err ) ? . map ( | v | v . unwrap ( ) ) . collect :: < Vec < _ > > ( )` => `conn.run_rows::<Rec>(&built)?`
//@@ rw R7 `count . div_ceil ( q . limit ( ) )` => `div_ceil_usize(count, q.limit())`
//@@ proof after=sel_rows#1
        proof {
            //# Q4-the-page-statement-names-every-column-of-the-record-in-mapper-order
            assert(query.s@.columns =~= all_cols());
        }
//@@ spec
    requires
        forall|i: int, j: int| 0 <= i < q.conds@.len() && 0 <= j < q.conds@[i].conds@.len() ==> translatable(#[trigger] q.conds@[i].conds@[j]),
        q.offset < usize::MAX,
    ensures
        //# Q4-a-query-runs-one-count-statement-and-one-page-statement-and-writes-nothing
        ret is Ok ==> final(db).executed.len() == old(db).executed.len() + 2 && final(db).rows == old(db).rows,
        //# Q4-the-count-statement-counts-the-filtered-records-of-the-table-without-any-window
        ret is Ok ==> final(db).executed[old(db).executed.len() as int] == (StmtR::Select(SelectAbs { table: "procs"@, columns: Seq::empty(), count_of: Some("id"@),
            filter: filter_of(*q), id_eq: None, order: Seq::empty(), limit: None, offset: None })),
        //# Q4-the-page-statement-selects-every-column-in-mapper-order-filtered-ordered-by-the-requested-keys-and-windowed
        ret is Ok ==> final(db).executed[old(db).executed.len() as int + 1] == (StmtR::Select(SelectAbs { table: "procs"@, columns: all_cols(), count_of: None,
            filter: filter_of(*q), id_eq: None, order: order_of(q.order_by@), limit: Some(q_limit(*q)), offset: Some(q.offset as int) })),
        //# Q3-the-answer-carries-the-count-of-the-count-statement-the-rows-of-the-page-statement-and-the-page-arithmetic
        ret is Ok ==> ret->Ok_0.count == count_result(final(db).executed[old(db).executed.len() as int], old(db).rows)
            && ret->Ok_0.rows@ == rows_result::<Rec>(final(db).executed[old(db).executed.len() as int + 1], old(db).rows)
            && ret->Ok_0.page_size as int == q_limit(*q) && ret->Ok_0.page_count as int == (ret->Ok_0.count as int + q_limit(*q) - 1) / q_limit(*q)
            && ret->Ok_0.page_num as int == q.offset as int / q_limit(*q) + 1,
//@@ loop 1
        invariant
            //# order-keys-so-far
            __v1@ == q.order_by@ && query.s@ == (SelectAbs { order: order_of(q.order_by@.take(__i1 as int)), ..query.s@ }) && query.s@.table == "procs"@ && query.s@.columns == all_cols()
                && query.s@.count_of is None && query.s@.filter == filter_of(*q) && query.s@.id_eq is None && query.s@.limit is None && query.s@.offset is None,
//@@ proof at=loop1
                proof {
                    let o = q.order_by@;
                    assert(o.take(__i1 as int + 1) =~= o.take(__i1 as int).push(o[__i1 as int]));
                    assert(order_of(o.take(__i1 as int + 1)) =~= order_of(o.take(__i1 as int)).push((o[__i1 as int].0@, o[__i1 as int].1)));
                }
//@@ proof at=afterloop1
            proof { assert(q.order_by@.take(q.order_by@.len() as int) =~= q.order_by@); }
//@@ proof before=is_empty#2
        proof { assert(order_of(q.order_by@.take(0)) =~= Seq::<(Seq<char>, bool)>::empty()); if q.order_by@.len() == 0 { assert(order_of(q.order_by@) =~= Seq::<(Seq<char>, bool)>::empty()); } }
//@@ end
//@@ extract file=store/sqlite/src/collection/proc.rs in="impl DbCollection for ProcCollection" item="fn find" name=sqlite::Proc::find
//@@ rw R7 `Result < Self :: Item >` => `Result<Rec>`
//@@ rw R7 `self . conn . get ( ) . unwrap ( )` => `self.conn.get_conn()`
//@@ rw R7 `let ( sql , values ) = SeaQuery :: select ( ) . from ( $T:chain ) . columns ( [ $C:args ] ) . and_where ( SeaExpr :: col ( $I:chain ) . eq ( id ) ) . build_rusqlite ( SqliteQueryBuilder ) ;` => `let built = sel_by_id($T, [$C], $I, id);`
//@@ rw R7 `let mut stmt = conn . prepare ( sql . as_str ( ) ) . map_err ( map_db_err ) ? ;` => ``
//@@ rw R7 `stmt . query_row ( & * values . as_params ( ) , Self :: Item :: from_row ) . map_err ( map_db_err ) ?` => `conn.run_row::<Rec>(&built)?`
//@@ proof after=sel_by_id#1
        proof {
            //# Q4-find-names-every-column-of-the-record-in-mapper-order
            assert(built.b@->Select_0.columns =~= all_cols());
        }
//@@ spec
    ensures
        //# Q4-find-selects-every-column-in-mapper-order-of-the-row-with-that-id
        ret is Ok ==> final(db).executed == old(db).executed.push(StmtR::Select(SelectAbs { table: "procs"@, columns: all_cols(), count_of: None, filter: None, id_eq: Some(id@), order: Seq::empty(), limit: None, offset: None }))
            && final(db).rows == old(db).rows,
//@@ end
//@@ extract file=store/sqlite/src/collection/proc.rs in="impl DbCollection for ProcCollection" item="fn exists" name=sqlite::Proc::exists
//@@ rw R7 `self . conn . get ( ) . unwrap ( )` => `self.conn.get_conn()`
//@@ rw R7 `let ( sql , values ) = SeaQuery :: select ( ) . from ( $T:chain ) . expr ( SeaFunc :: count ( SeaExpr :: col ( $I:chain ) ) ) . and_where ( SeaExpr :: col ( $J:chain ) . eq ( id ) ) . build_rusqlite ( SqliteQueryBuilder ) ;` => `let built = sel_count_by_id($T, $I, $J, id);`
//@@ rw R7 `let mut stmt = conn . prepare ( sql . as_str ( ) ) . map_err ( map_db_err ) ? ;` => ``
//@@ rw R7 `stmt . query_row ( & * values . as_params ( ) , | row | row . get :: < usize , i64 > ( 0 ) ) . map_err ( map_db_err ) ?` => `conn.run_scalar(&built)?`
//@@ spec
    ensures
        //# Q4-exists-counts-the-rows-with-that-id
        ret is Ok ==> final(db).executed == old(db).executed.push(StmtR::Select(SelectAbs { table: "procs"@, columns: Seq::empty(), count_of: Some("id"@), filter: None, id_eq: Some(id@), order: Seq::empty(), limit: None, offset: None }))
            && final(db).rows == old(db).rows && ret->Ok_0 == (scalar_result(final(db).executed.last(), old(db).rows) > 0),
//@@ end
//@@ extract file=store/sqlite/src/collection/proc.rs in="impl DbCollection for ProcCollection" item="fn delete" name=sqlite::Proc::delete
//@@ rw R7 `self . conn . get ( ) . unwrap ( )` => `self.conn.get_conn()`
//@@ rw R7 `let ( sql , values ) = SeaQuery :: delete ( ) . from_table ( $T:chain ) . and_where ( SeaExpr :: col ( $I:chain ) . eq ( id ) ) . build_rusqlite ( SqliteQueryBuilder ) ;` => `let built = del_by_id($T, $I, id);`
//@@ rw R7 `conn . execute ( sql . as_str ( ) , & * values . as_params ( ) ) . map_err ( map_db_err ) ?` => `conn.execute(&built)?`
//@@ spec
    ensures
        //# Q4-delete-removes-the-row-with-that-id-from-its-own-table-and-nothing-else
        ret is Ok ==> final(db).executed == old(db).executed.push(StmtR::Delete { table: "procs"@, id_col: "id"@, id: id@ }),
        //# Q4-a-refused-delete-writes-nothing
        ret is Err ==> *final(db) == *old(db),
//@@ end
}
}
// ---------------------------------------------------------------- models
pub mod model {
use super::*;
//@@ extract file=store/sqlite/src/collection/model.rs item="enum CollectionIden" name=model::CollectionIden
//@@ opt dropderive=Iden
//@@ rw R17 `enum CollectionIden` => `pub enum CollectionIden`
//@@ end
// `#[derive(Iden)] #[iden = "models"]`: the column name is the snake_case of the variant (ASSUMED, derive-generated)
impl ColRef for CollectionIden {
    open spec fn cname(&self) -> Seq<char> {
        match self { CollectionIden::Table => "models"@, CollectionIden::Id => "id"@, CollectionIden::Name => "name"@, CollectionIden::Ver => "ver"@, CollectionIden::Size => "size"@, CollectionIden::CreateTime => "create_time"@, CollectionIden::UpdateTime => "update_time"@, CollectionIden::Data => "data"@, CollectionIden::Timestamp => "timestamp"@, }
    }
}
// oracle: the row mapper reads the columns of the record in this order (U-sqlmap: from_row reads every field from the column of its own name)
pub open spec fn all_cols() -> Seq<Seq<char>> { seq!["id"@, "name"@, "ver"@, "size"@, "create_time"@, "update_time"@, "data"@, "timestamp"@] }
pub struct ModelCollection { pub conn: DbConnection }
pub struct Rec {}     // data::Model (its mapper `from_row` is under contract in U-sqlmap)
impl ModelCollection {
//@@ extract file=store/sqlite/src/collection/model.rs in="impl DbCollection for ModelCollection" item="fn query" name=sqlite::Model::query
//@@ rw R7 `acts :: PageData < Self :: Item >` => `PageData<Rec>`
//@@ rw R7 `self . conn . get ( ) . unwrap ( )` => `self.conn.get_conn()`
//@@ rw R7 `let mut count_query = SeaQuery :: select ( ) ; count_query . from ( $T:chain ) . expr ( SeaFunc :: count ( SeaExpr :: col ( $I:args ) ) ) ;` => `let mut count_query = sel_count($T, $I);`
//@@ rw R7 `let mut query = SeaQuery :: select ( ) ; query . columns ( [ $C:args ] ) . from ( $T:chain ) ;` => `let mut query = sel_rows($T, [$C]);`
//@@ rw R7 `let ( sql , values ) = query . limit ( $L:args ) . offset ( $O:args ) . build_rusqlite ( SqliteQueryBuilder ) ;` => `let built = query.build_page($L, $O);`
//@@ rw R7 `let ( count_sql , count_values ) = count_query . build_rusqlite ( SqliteQueryBuilder ) ;` => `let count_built = count_query.build();`
//@@ rw R7 `conn . prepare ( count_sql . as_str ( ) ) . map_err ( map_db_err ) ? . query_row :: < usize , _ , _ > ( & * count_values . as_params ( ) , | row | row . get ( 0 ) ) . map_err ( map_db_err ) ?` => `conn.run_count(&count_built)?`
//@@ rw R7 `conn . prepare ( & sql ) . map_err ( map_db_err ) ? . query_map ( & * values . as_params ( ) , Self :: Item :: from_row ) . map_err ( map_db_err ) ? . map ( | v | v . unwrap ( ) ) . collect :: < Vec < _ > > ( )` => `conn.run_rows::<Rec>(&built)?`
//@@ rw R7 `count . div_ceil ( q . limit ( ) )` => `div_ceil_usize(count, q.limit())`
//@@ proof after=sel_rows#1
        proof {
            //# Q4-the-page-statement-names-every-column-of-the-record-in-mapper-order
            assert(query.s@.columns =~= all_cols());
        }
//@@ spec
    requires
        forall|i: int, j: int| 0 <= i < q.conds@.len() && 0 <= j < q.conds@[i].conds@.len() ==> translatable(#[trigger] q.conds@[i].conds@[j]),
        q.offset < usize::MAX,
    ensures
        //# Q4-a-query-runs-one-count-statement-and-one-page-statement-and-writes-nothing
        ret is Ok ==> final(db).executed.len() == old(db).executed.len() + 2 && final(db).rows == old(db).rows,
        //# Q4-the-count-statement-counts-the-filtered-records-of-the-table-without-any-window
        ret is Ok ==> final(db).executed[old(db).executed.len() as int] == (StmtR::Select(SelectAbs { table: "models"@, columns: Seq::empty(), count_of: Some("id"@),
            filter: filter_of(*q), id_eq: None, order: Seq::empty(), limit: None, offset: None })),
        //# Q4-the-page-statement-selects-every-column-in-mapper-order-filtered-ordered-by-the-requested-keys-and-windowed
        ret is Ok ==> final(db).executed[old(db).executed.len() as int + 1] == (StmtR::Select(SelectAbs { table: "models"@, columns: all_cols(), count_of: None,
            filter: filter_of(*q), id_eq: None, order: order_of(q.order_by@), limit: Some(q_limit(*q)), offset: Some(q.offset as int) })),
        //# Q3-the-answer-carries-the-count-of-the-count-statement-the-rows-of-the-page-statement-and-the-page-arithmetic
        ret is Ok ==> ret->Ok_0.count == count_result(final(db).executed[old(db).executed.len() as int], old(db).rows)
            && ret->Ok_0.rows@ == rows_result::<Rec>(final(db).executed[old(db).executed.len() as int + 1], old(db).rows)
            && ret->Ok_0.page_size as int == q_limit(*q) && ret->Ok_0.page_count as int == (ret->Ok_0.count as int + q_limit(*q) - 1) / q_limit(*q)
            && ret->Ok_0.page_num as int == q.offset as int / q_limit(*q) + 1,
//@@ loop 1
        invariant
            //# order-keys-so-far
            __v1@ == q.order_by@ && query.s@ == (SelectAbs { order: order_of(q.order_by@.take(__i1 as int)), ..query.s@ }) && query.s@.table == "models"@ && query.s@.columns == all_cols()
                && query.s@.count_of is None && query.s@.filter == filter_of(*q) && query.s@.id_eq is None && query.s@.limit is None && query.s@.offset is None,
//@@ proof at=loop1
                proof {
                    let o = q.order_by@;
                    assert(o.take(__i1 as int + 1) =~= o.take(__i1 as int).push(o[__i1 as int]));
                    assert(order_of(o.take(__i1 as int + 1)) =~= order_of(o.take(__i1 as int)).push((o[__i1 as int].0@, o[__i1 as int].1)));
                }
//@@ proof at=afterloop1
            proof { assert(q.order_by@.take(q.order_by@.len() as int) =~= q.order_by@); }
//@@ proof before=is_empty#2
        proof { assert(order_of(q.order_by@.take(0)) =~= Seq::<(Seq<char>, bool)>::empty()); if q.order_by@.len() == 0 { assert(order_of(q.order_by@) =~= Seq::<(Seq<char>, bool)>::empty()); } }
//@@ end
//@@ extract file=store/sqlite/src/collection/model.rs in="impl DbCollection for ModelCollection" item="fn find" name=sqlite::Model::find
//@@ rw R7 `Result < Self :: Item >` => `Result<Rec>`
//@@ rw R7 `self . conn . get ( ) . unwrap ( )` => `self.conn.get_conn()`
//@@ rw R7 `let ( sql , values ) = SeaQuery :: select ( ) . from ( $T:chain ) . columns ( [ $C:args ] ) . and_where ( SeaExpr :: col ( $I:chain ) . eq ( id ) ) . build_rusqlite ( SqliteQueryBuilder ) ;` => `let built = sel_by_id($T, [$C], $I, id);`
//@@ rw R7 `let mut stmt = conn . prepare ( sql . as_str ( ) ) . map_err ( map_db_err ) ? ;` => ``
//@@ rw R7 `stmt . query_row ( & * values . as_params ( ) , Self :: Item :: from_row ) . map_err ( map_db_err ) ?` => `conn.run_row::<Rec>(&built)?`
//@@ proof after=sel_by_id#1
        proof {
            //# Q4-find-names-every-column-of-the-record-in-mapper-order
            assert(built.b@->Select_0.columns =~= all_cols());
        }
//@@ spec
    ensures
        //# Q4-find-selects-every-column-in-mapper-order-of-the-row-with-that-id
        ret is Ok ==> final(db).executed == old(db).executed.push(StmtR::Select(SelectAbs { table: "models"@, columns: all_cols(), count_of: None, filter: None, id_eq: Some(id@), order: Seq::empty(), limit: None, offset: None }))
            && final(db).rows == old(db).rows,
//@@ end
//@@ extract file=store/sqlite/src/collection/model.rs in="impl DbCollection for ModelCollection" item="fn exists" name=sqlite::Model::exists
//@@ rw R7 `self . conn . get ( ) . unwrap ( )` => `self.conn.get_conn()`
//@@ rw R7 `let ( sql , values ) = SeaQuery :: select ( ) . from ( $T:chain ) . expr ( SeaFunc :: count ( SeaExpr :: col ( $I:chain ) ) ) . and_where ( SeaExpr :: col ( $J:chain ) . eq ( id ) ) . build_rusqlite ( SqliteQueryBuilder ) ;` => `let built = sel_count_by_id($T, $I, $J, id);`
//@@ rw R7 `let mut stmt = conn . prepare ( sql . as_str ( ) ) . map_err ( map_db_err ) ? ;` => ``
//@@ rw R7 `stmt . query_row ( & * values . as_params ( ) , | row | row . get :: < usize , i64 > ( 0 ) ) . map_err ( map_db_err ) ?` => `conn.run_scalar(&built)?`
//@@ spec
    ensures
        //# Q4-exists-counts-the-rows-with-that-id
        ret is Ok ==> final(db).executed == old(db).executed.push(StmtR::Select(SelectAbs { table: "models"@, columns: Seq::empty(), count_of: Some("id"@), filter: None, id_eq: Some(id@), order: Seq::empty(), limit: None, offset: None }))
            && final(db).rows == old(db).rows && ret->Ok_0 == (scalar_result(final(db).executed.last(), old(db).rows) > 0),
//@@ end
//@@ extract file=store/sqlite/src/collection/model.rs in="impl DbCollection for ModelCollection" item="fn delete" name=sqlite::Model::delete
//@@ rw R7 `self . conn . get ( ) . unwrap ( )` => `self.conn.get_conn()`
//@@ rw R7 `let ( sql , values ) = SeaQuery :: delete ( ) . from_table ( $T:chain ) . and_where ( SeaExpr :: col ( $I:chain ) . eq ( id ) ) . build_rusqlite ( SqliteQueryBuilder ) ;` => `let built = del_by_id($T, $I, id);`
//@@ rw R7 `conn . execute ( sql . as_str ( ) , & * values . as_params ( ) ) . map_err ( map_db_err ) ?` => `conn.execute(&built)?`
//@@ spec
    ensures
        //# Q4-delete-removes-the-row-with-that-id-from-its-own-table-and-nothing-else
        ret is Ok ==> final(db).executed == old(db).executed.push(StmtR::Delete { table: "models"@, id_col: "id"@, id: id@ }),
        //# Q4-a-refused-delete-writes-nothing
        ret is Err ==> *final(db) == *old(db),
//@@ end
}
}
// ---------------------------------------------------------------- events
pub mod event {
use super::*;
//@@ extract file=store/sqlite/src/collection/event.rs item="enum CollectionIden" name=event::CollectionIden
//@@ opt dropderive=Iden
//@@ rw R17 `enum CollectionIden` => `pub enum CollectionIden`
//@@ end
// `#[derive(Iden)] #[iden = "events"]`: the column name is the snake_case of the variant (ASSUMED, derive-generated)
impl ColRef for CollectionIden {
    open spec fn cname(&self) -> Seq<char> {
        match self { CollectionIden::Table => "events"@, CollectionIden::Id => "id"@, CollectionIden::Name => "name"@, CollectionIden::Mid => "mid"@, CollectionIden::Ver => "ver"@, CollectionIden::Uses => "uses"@, CollectionIden::Params => "params"@, CollectionIden::CreateTime => "create_time"@, CollectionIden::Timestamp => "timestamp"@, }
    }
}
// oracle: the row mapper reads the columns of the record in this order (U-sqlmap: from_row reads every field from the column of its own name)
pub open spec fn all_cols() -> Seq<Seq<char>> { seq!["id"@, "name"@, "mid"@, "ver"@, "uses"@, "params"@, "create_time"@, "timestamp"@] }
pub struct EventCollection { pub conn: DbConnection }
pub struct Rec {}     // data::Event (its mapper `from_row` is under contract in U-sqlmap)
impl EventCollection {
//@@ extract file=store/sqlite/src/collection/event.rs in="impl DbCollection for EventCollection" item="fn query" name=sqlite::Event::query
//@@ rw R7 `acts :: PageData < Self :: Item >` => `PageData<Rec>`
//@@ rw R7 `self . conn . get ( ) . unwrap ( )` => `self.conn.get_conn()`
//@@ rw R7 `let mut count_query = SeaQuery :: select ( ) ; count_query . from ( $T:chain ) . expr ( SeaFunc :: count ( SeaExpr :: col ( $I:args ) ) ) ;` => `let mut count_query = sel_count($T, $I);`
//@@ rw R7 `let mut query = SeaQuery :: select ( ) ; query . columns ( [ $C:args ] ) . from ( $T:chain ) ;` => `let mut query = sel_rows($T, [$C]);`
//@@ rw R7 `let ( sql , values ) = query . limit ( $L:args ) . offset ( $O:args ) . build_rusqlite ( SqliteQueryBuilder ) ;` => `let built = query.build_page($L, $O);`
//@@ rw R7 `let ( count_sql , count_values ) = count_query . build_rusqlite ( SqliteQueryBuilder ) ;` => `let count_built = count_query.build();`
//@@ rw R7 `conn . prepare ( count_sql . as_str ( ) ) . map_err ( map_db_err ) ? . query_row :: < usize , _ , _ > ( & * count_values . as_params ( ) , | row | row . get ( 0 ) ) . map_err ( map_db_err ) ?` => `conn.run_count(&count_built)?`
//@@ rw R7 `conn . prepare ( & sql ) . map_err ( map_db_err ) ? . query_map ( & * values . as_params ( ) , Self :: Item :: from_row ) . map_err ( map_db_err ) ? . map ( | v | v . unwrap ( ) ) . collect :: < Vec < _ > > ( )` => `conn.run_rows::<Rec>(&built)?`
//@@ rw R7 `count . div_ceil ( q . limit ( ) )` => `div_ceil_usize(count, q.limit())`
//@@ proof after=sel_rows#1
        proof {
            //# Q4-the-page-statement-names-every-column-of-the-record-in-mapper-order
            assert(query.s@.columns =~= all_cols());
        }
//@@ spec
    requires
        forall|i: int, j: int| 0 <= i < q.conds@.len() && 0 <= j < q.conds@[i].conds@.len() ==> translatable(#[trigger] q.conds@[i].conds@[j]),
        q.offset < usize::MAX,
    ensures
        //# Q4-a-query-runs-one-count-statement-and-one-page-statement-and-writes-nothing
        ret is Ok ==> final(db).executed.len() == old(db).executed.len() + 2 && final(db).rows == old(db).rows,
        //# Q4-the-count-statement-counts-the-filtered-records-of-the-table-without-any-window
        ret is Ok ==> final(db).executed[old(db).executed.len() as int] == (StmtR::Select(SelectAbs { table: "events"@, columns: Seq::empty(), count_of: Some("id"@),
            filter: filter_of(*q), id_eq: None, order: Seq::empty(), limit: None, offset: None })),
        //# Q4-the-page-statement-selects-every-column-in-mapper-order-filtered-ordered-by-the-requested-keys-and-windowed
        ret is Ok ==> final(db).executed[old(db).executed.len() as int + 1] == (StmtR::Select(SelectAbs { table: "events"@, columns: all_cols(), count_of: None,
            filter: filter_of(*q), id_eq: None, order: order_of(q.order_by@), limit: Some(q_limit(*q)), offset: Some(q.offset as int) })),
        //# Q3-the-answer-carries-the-count-of-the-count-statement-the-rows-of-the-page-statement-and-the-page-arithmetic
        ret is Ok ==> ret->Ok_0.count == count_result(final(db).executed[old(db).executed.len() as int], old(db).rows)
            && ret->Ok_0.rows@ == rows_result::<Rec>(final(db).executed[old(db).executed.len() as int + 1], old(db).rows)
            && ret->Ok_0.page_size as int == q_limit(*q) && ret->Ok_0.page_count as int == (ret->Ok_0.count as int + q_limit(*q) - 1) / q_limit(*q)
            && ret->Ok_0.page_num as int == q.offset as int / q_limit(*q) + 1,
//@@ loop 1
        invariant
            //# order-keys-so-far
            __v1@ == q.order_by@ && query.s@ == (SelectAbs { order: order_of(q.order_by@.take(__i1 as int)), ..query.s@ }) && query.s@.table == "events"@ && query.s@.columns == all_cols()
                && query.s@.count_of is None && query.s@.filter == filter_of(*q) && query.s@.id_eq is None && query.s@.limit is None && query.s@.offset is None,
//@@ proof at=loop1
                proof {
                    let o = q.order_by@;
                    assert(o.take(__i1 as int + 1) =~= o.take(__i1 as int).push(o[__i1 as int]));
                    assert(order_of(o.take(__i1 as int + 1)) =~= order_of(o.take(__i1 as int)).push((o[__i1 as int].0@, o[__i1 as int].1)));
                }
//@@ proof at=afterloop1
            proof { assert(q.order_by@.take(q.order_by@.len() as int) =~= q.order_by@); }
//@@ proof before=is_empty#2
        proof { assert(order_of(q.order_by@.take(0)) =~= Seq::<(Seq<char>, bool)>::empty()); if q.order_by@.len() == 0 { assert(order_of(q.order_by@) =~= Seq::<(Seq<char>, bool)>::empty()); } }
//@@ end
//@@ extract file=store/sqlite/src/collection/event.rs in="impl DbCollection for EventCollection" item="fn find" name=sqlite::Event::find
//@@ rw R7 `Result < Self :: Item >` => `Result<Rec>`
//@@ rw R7 `self . conn . get ( ) . unwrap ( )` => `self.conn.get_conn()`
//@@ rw R7 `let ( sql , values ) = SeaQuery :: select ( ) . from ( $T:chain ) . columns ( [ $C:args ] ) . and_where ( SeaExpr :: col ( $I:chain ) . eq ( id ) ) . build_rusqlite ( SqliteQueryBuilder ) ;` => `let built = sel_by_id($T, [$C], $I, id);`
//@@ rw R7 `let mut stmt = conn . prepare ( sql . as_str ( ) ) . map_err ( map_db_err ) ? ;` => ``
//@@ rw R7 `stmt . query_row ( & * values . as_params ( ) , Self :: Item :: from_row ) . map_err ( map_db_err ) ?` => `conn.run_row::<Rec>(&built)?`
//@@ proof after=sel_by_id#1
        proof {
            //# Q4-find-names-every-column-of-the-record-in-mapper-order
            assert(built.b@->Select_0.columns =~= all_cols());
        }
//@@ spec
    ensures
        //# Q4-find-selects-every-column-in-mapper-order-of-the-row-with-that-id
        ret is Ok ==> final(db).executed == old(db).executed.push(StmtR::Select(SelectAbs { table: "events"@, columns: all_cols(), count_of: None, filter: None, id_eq: Some(id@), order: Seq::empty(), limit: None, offset: None }))
            && final(db).rows == old(db).rows,
//@@ end
//@@ extract file=store/sqlite/src/collection/event.rs in="impl DbCollection for EventCollection" item="fn exists" name=sqlite::Event::exists
//@@ rw R7 `self . conn . get ( ) . unwrap ( )` => `self.conn.get_conn()`
//@@ rw R7 `let ( sql , values ) = SeaQuery :: select ( ) . from ( $T:chain ) . expr ( SeaFunc :: count ( SeaExpr :: col ( $I:chain ) ) ) . and_where ( SeaExpr :: col ( $J:chain ) . eq ( id ) ) . build_rusqlite ( SqliteQueryBuilder ) ;` => `let built = sel_count_by_id($T, $I, $J, id);`
//@@ rw R7 `let mut stmt = conn . prepare ( sql . as_str ( ) ) . map_err ( map_db_err ) ? ;` => ``
//@@ rw R7 `stmt . query_row ( & * values . as_params ( ) , | row | row . get :: < usize , i64 > ( 0 ) ) . map_err ( map_db_err ) ?` => `conn.run_scalar(&built)?`
//@@ spec
    ensures
        //# Q4-exists-counts-the-rows-with-that-id
        ret is Ok ==> final(db).executed == old(db).executed.push(StmtR::Select(SelectAbs { table: "events"@, columns: Seq::empty(), count_of: Some("id"@), filter: None, id_eq: Some(id@), order: Seq::empty(), limit: None, offset: None }))
            && final(db).rows == old(db).rows && ret->Ok_0 == (scalar_result(final(db).executed.last(), old(db).rows) > 0),
//@@ end
//@@ extract file=store/sqlite/src/collection/event.rs in="impl DbCollection for EventCollection" item="fn delete" name=sqlite::Event::delete
//@@ rw R7 `self . conn . get ( ) . unwrap ( )` => `self.conn.get_conn()`
//@@ rw R7 `let ( sql , values ) = SeaQuery :: delete ( ) . from_table ( $T:chain ) . and_where ( SeaExpr :: col ( $I:chain ) . eq ( id ) ) . build_rusqlite ( SqliteQueryBuilder ) ;` => `let built = del_by_id($T, $I, id);`
//@@ rw R7 `conn . execute ( sql . as_str ( ) , & * values . as_params ( ) ) . map_err ( map_db_err ) ?` => `conn.execute(&built)?`
//@@ spec
    ensures
        //# Q4-delete-removes-the-row-with-that-id-from-its-own-table-and-nothing-else
        ret is Ok ==> final(db).executed == old(db).executed.push(StmtR::Delete { table: "events"@, id_col: "id"@, id: id@ }),
        //# Q4-a-refused-delete-writes-nothing
        ret is Err ==> *final(db) == *old(db),
//@@ end
}
}
// ---------------------------------------------------------------- messages
pub mod message {
use super::*;
//@@ extract file=store/sqlite/src/collection/message.rs item="enum CollectionIden" name=message::CollectionIden
//@@ opt dropderive=Iden
//@@ rw R17 `enum CollectionIden` => `pub enum CollectionIden`
//@@ end
// `#[derive(Iden)] #[iden = "messages"]`: the column name is the snake_case of the variant (ASSUMED, derive-generated)
impl ColRef for CollectionIden {
    open spec fn cname(&self) -> Seq<char> {
        match self { CollectionIden::Table => "messages"@, CollectionIden::Id => "id"@, CollectionIden::Tid => "tid"@, CollectionIden::Name => "name"@, CollectionIden::State => "state"@, CollectionIden::Type => "type"@, CollectionIden::Model => "model"@, CollectionIden::Pid => "pid"@, CollectionIden::Nid => "nid"@, CollectionIden::Mid => "mid"@, CollectionIden::Key => "key"@, CollectionIden::Uses => "uses"@, CollectionIden::Inputs => "inputs"@, CollectionIden::Outputs => "outputs"@, CollectionIden::Tag => "tag"@, CollectionIden::StartTime => "start_time"@, CollectionIden::EndTime => "end_time"@, CollectionIden::ChanId => "chan_id"@, CollectionIden::ChanPattern => "chan_pattern"@, CollectionIden::CreateTime => "create_time"@, CollectionIden::UpdateTime => "update_time"@, CollectionIden::RetryTimes => "retry_times"@, CollectionIden::Status => "status"@, CollectionIden::Timestamp => "timestamp"@, }
    }
}
// oracle: the row mapper reads the columns of the record in this order (U-sqlmap: from_row reads every field from the column of its own name)
pub open spec fn all_cols() -> Seq<Seq<char>> { seq!["id"@, "tid"@, "name"@, "state"@, "type"@, "model"@, "pid"@, "nid"@, "mid"@, "key"@, "uses"@, "inputs"@, "outputs"@, "tag"@, "start_time"@, "end_time"@, "chan_id"@, "chan_pattern"@, "create_time"@, "update_time"@, "retry_times"@, "status"@, "timestamp"@] }
pub struct MessageCollection { pub conn: DbConnection }
pub struct Rec {}     // data::Message (its mapper `from_row` is under contract in U-sqlmap)
impl MessageCollection {
//@@ extract file=store/sqlite/src/collection/message.rs in="impl DbCollection for MessageCollection" item="fn query" name=sqlite::Message::query
//@@ rw R7 `acts :: PageData < Self :: Item >` => `PageData<Rec>`
//@@ rw R7 `self . conn . get ( ) . unwrap ( )` => `self.conn.get_conn()`
//@@ rw R7 `let mut count_query = SeaQuery :: select ( ) ; count_query . from ( $T:chain ) . expr ( SeaFunc :: count ( SeaExpr :: col ( $I:args ) ) ) ;` => `let mut count_query = sel_count($T, $I);`
//@@ rw R7 `let mut query = SeaQuery :: select ( ) ; query . columns ( [ $C:args ] ) . from ( $T:chain ) ;` => `let mut query = sel_rows($T, [$C]);`
//@@ rw R7 `let ( sql , values ) = query . limit ( $L:args ) . offset ( $O:args ) . build_rusqlite ( SqliteQueryBuilder ) ;` => `let built = query.build_page($L, $O);`
//@@ rw R7 `let ( count_sql , count_values ) = count_query . build_rusqlite ( SqliteQueryBuilder ) ;` => `let count_built = count_query.build();`
//@@ rw R7 `conn . prepare ( count_sql . as_str ( ) ) . map_err ( map_db_err ) ? . query_row :: < usize , _ , _ > ( & * count_values . as_params ( ) , | row | row . get ( 0 ) ) . map_err ( map_db_err ) ?` => `conn.run_count(&count_built)?`
//@@ rw R7 `conn . prepare ( & sql ) . map_err ( map_db_err ) ? . query_map ( & * values . as_params ( ) , Self :: Item :: from_row ) . map_err ( map_db_err ) ? . map ( | v | v . unwrap ( ) ) . collect :: < Vec < _ > > ( )` => `conn.run_rows::<Rec>(&built)?`
//@@ rw R7 `count . div_ceil ( q . limit ( ) )` => `div_ceil_usize(count, q.limit())`
//@@ proof after=sel_rows#1
        proof {
            //# Q4-the-page-statement-names-every-column-of-the-record-in-mapper-order
            assert(query.s@.columns =~= all_cols());
        }
//@@ spec
    requires
        forall|i: int, j: int| 0 <= i < q.conds@.len() && 0 <= j < q.conds@[i].conds@.len() ==> translatable(#[trigger] q.conds@[i].conds@[j]),
        q.offset < usize::MAX,
    ensures
        //# Q4-a-query-runs-one-count-statement-and-one-page-statement-and-writes-nothing
        ret is Ok ==> final(db).executed.len() == old(db).executed.len() + 2 && final(db).rows == old(db).rows,
        //# Q4-the-count-statement-counts-the-filtered-records-of-the-table-without-any-window
        ret is Ok ==> final(db).executed[old(db).executed.len() as int] == (StmtR::Select(SelectAbs { table: "messages"@, columns: Seq::empty(), count_of: Some("id"@),
            filter: filter_of(*q), id_eq: None, order: Seq::empty(), limit: None, offset: None })),
        //# Q4-the-page-statement-selects-every-column-in-mapper-order-filtered-ordered-by-the-requested-keys-and-windowed
        ret is Ok ==> final(db).executed[old(db).executed.len() as int + 1] == (StmtR::Select(SelectAbs { table: "messages"@, columns: all_cols(), count_of: None,
            filter: filter_of(*q), id_eq: None, order: order_of(q.order_by@), limit: Some(q_limit(*q)), offset: Some(q.offset as int) })),
        //# Q3-the-answer-carries-the-count-of-the-count-statement-the-rows-of-the-page-statement-and-the-page-arithmetic
        ret is Ok ==> ret->Ok_0.count == count_result(final(db).executed[old(db).executed.len() as int], old(db).rows)
            && ret->Ok_0.rows@ == rows_result::<Rec>(final(db).executed[old(db).executed.len() as int + 1], old(db).rows)
            && ret->Ok_0.page_size as int == q_limit(*q) && ret->Ok_0.page_count as int == (ret->Ok_0.count as int + q_limit(*q) - 1) / q_limit(*q)
            && ret->Ok_0.page_num as int == q.offset as int / q_limit(*q) + 1,
//@@ loop 1
        invariant
            //# order-keys-so-far
            __v1@ == q.order_by@ && query.s@ == (SelectAbs { order: order_of(q.order_by@.take(__i1 as int)), ..query.s@ }) && query.s@.table == "messages"@ && query.s@.columns == all_cols()
                && query.s@.count_of is None && query.s@.filter == filter_of(*q) && query.s@.id_eq is None && query.s@.limit is None && query.s@.offset is None,
//@@ proof at=loop1
                proof {
                    let o = q.order_by@;
                    assert(o.take(__i1 as int + 1) =~= o.take(__i1 as int).push(o[__i1 as int]));
                    assert(order_of(o.take(__i1 as int + 1)) =~= order_of(o.take(__i1 as int)).push((o[__i1 as int].0@, o[__i1 as int].1)));
                }
//@@ proof at=afterloop1
            proof { assert(q.order_by@.take(q.order_by@.len() as int) =~= q.order_by@); }
//@@ proof before=is_empty#2
        proof { assert(order_of(q.order_by@.take(0)) =~= Seq::<(Seq<char>, bool)>::empty()); if q.order_by@.len() == 0 { assert(order_of(q.order_by@) =~= Seq::<(Seq<char>, bool)>::empty()); } }
//@@ end
//@@ extract file=store/sqlite/src/collection/message.rs in="impl DbCollection for MessageCollection" item="fn find" name=sqlite::Message::find
//@@ rw R7 `Result < Self :: Item >` => `Result<Rec>`
//@@ rw R7 `self . conn . get ( ) . unwrap ( )` => `self.conn.get_conn()`
//@@ rw R7 `let ( sql , values ) = SeaQuery :: select ( ) . from ( $T:chain ) . columns ( [ $C:args ] ) . and_where ( SeaExpr :: col ( $I:chain ) . eq ( id ) ) . build_rusqlite ( SqliteQueryBuilder ) ;` => `let built = sel_by_id($T, [$C], $I, id);`
//@@ rw R7 `let mut stmt = conn . prepare ( sql . as_str ( ) ) . map_err ( map_db_err ) ? ;` => ``
//@@ rw R7 `stmt . query_row ( & * values . as_params ( ) , Self :: Item :: from_row ) . map_err ( map_db_err ) ?` => `conn.run_row::<Rec>(&built)?`
//@@ proof after=sel_by_id#1
        proof {
            //# Q4-find-names-every-column-of-the-record-in-mapper-order
            assert(built.b@->Select_0.columns =~= all_cols());
        }
//@@ spec
    ensures
        //# Q4-find-selects-every-column-in-mapper-order-of-the-row-with-that-id
        ret is Ok ==> final(db).executed == old(db).executed.push(StmtR::Select(SelectAbs { table: "messages"@, columns: all_cols(), count_of: None, filter: None, id_eq: Some(id@), order: Seq::empty(), limit: None, offset: None }))
            && final(db).rows == old(db).rows,
//@@ end
//@@ extract file=store/sqlite/src/collection/message.rs in="impl DbCollection for MessageCollection" item="fn exists" name=sqlite::Message::exists
//@@ rw R7 `self . conn . get ( ) . unwrap ( )` => `self.conn.get_conn()`
//@@ rw R7 `let ( sql , values ) = SeaQuery :: select ( ) . from ( $T:chain ) . expr ( SeaFunc :: count ( SeaExpr :: col ( $I:chain ) ) ) . and_where ( SeaExpr :: col ( $J:chain ) . eq ( id ) ) . build_rusqlite ( SqliteQueryBuilder ) ;` => `let built = sel_count_by_id($T, $I, $J, id);`
//@@ rw R7 `let mut stmt = conn . prepare ( sql . as_str ( ) ) . map_err ( map_db_err ) ? ;` => ``
//@@ rw R7 `stmt . query_row ( & * values . as_params ( ) , | row | row . get :: < usize , i64 > ( 0 ) ) . map_err ( map_db_err ) ?` => `conn.run_scalar(&built)?`
//@@ spec
    ensures
        //# Q4-exists-counts-the-rows-with-that-id
        ret is Ok ==> final(db).executed == old(db).executed.push(StmtR::Select(SelectAbs { table: "messages"@, columns: Seq::empty(), count_of: Some("id"@), filter: None, id_eq: Some(id@), order: Seq::empty(), limit: None, offset: None }))
            && final(db).rows == old(db).rows && ret->Ok_0 == (scalar_result(final(db).executed.last(), old(db).rows) > 0),
//@@ end
//@@ extract file=store/sqlite/src/collection/message.rs in="impl DbCollection for MessageCollection" item="fn delete" name=sqlite::Message::delete
//@@ rw R7 `self . conn . get ( ) . unwrap ( )` => `self.conn.get_conn()`
//@@ rw R7 `let ( sql , values ) = SeaQuery :: delete ( ) . from_table ( $T:chain ) . and_where ( SeaExpr :: col ( $I:chain ) . eq ( id ) ) . build_rusqlite ( SqliteQueryBuilder ) ;` => `let built = del_by_id($T, $I, id);`
//@@ rw R7 `conn . execute ( sql . as_str ( ) , & * values . as_params ( ) ) . map_err ( map_db_err ) ?` => `conn.execute(&built)?`
//@@ spec
    ensures
        //# Q4-delete-removes-the-row-with-that-id-from-its-own-table-and-nothing-else
        ret is Ok ==> final(db).executed == old(db).executed.push(StmtR::Delete { table: "messages"@, id_col: "id"@, id: id@ }),
        //# Q4-a-refused-delete-writes-nothing
        ret is Err ==> *final(db) == *old(db),
//@@ end
}
}
// ---------------------------------------------------------------- packages
pub mod package {
use super::*;
//@@ extract file=store/sqlite/src/collection/package.rs item="enum CollectionIden" name=package::CollectionIden
//@@ opt dropderive=Iden
//@@ rw R17 `enum CollectionIden` => `pub enum CollectionIden`
//@@ end
// `#[derive(Iden)] #[iden = "packages"]`: the column name is the snake_case of the variant (ASSUMED, derive-generated)
impl ColRef for CollectionIden {
    open spec fn cname(&self) -> Seq<char> {
        match self { CollectionIden::Table => "packages"@, CollectionIden::Id => "id"@, CollectionIden::Desc => "desc"@, CollectionIden::Icon => "icon"@, CollectionIden::Doc => "doc"@, CollectionIden::Version => "version"@, CollectionIden::Schema => "schema"@, CollectionIden::RunAs => "run_as"@, CollectionIden::Resources => "resources"@, CollectionIden::Catalog => "catalog"@, CollectionIden::BuiltIn => "built_in"@, CollectionIden::CreateTime => "create_time"@, CollectionIden::UpdateTime => "update_time"@, CollectionIden::Timestamp => "timestamp"@, }
    }
}
// oracle: the row mapper reads the columns of the record in this order (U-sqlmap: from_row reads every field from the column of its own name)
pub open spec fn all_cols() -> Seq<Seq<char>> { seq!["id"@, "desc"@, "icon"@, "doc"@, "version"@, "schema"@, "run_as"@, "resources"@, "catalog"@, "built_in"@, "create_time"@, "update_time"@, "timestamp"@] }
pub struct PackageCollection { pub conn: DbConnection }
pub struct Rec {}     // data::Package (its mapper `from_row` is under contract in U-sqlmap)
impl PackageCollection {
//@@ extract file=store/sqlite/src/collection/package.rs in="impl DbCollection for PackageCollection" item="fn query" name=sqlite::Package::query
//@@ rw R7 `acts :: PageData < Self :: Item >` => `PageData<Rec>`
//@@ rw R7 `self . conn . get ( ) . unwrap ( )` => `self.conn.get_conn()`
//@@ rw R7 `let mut count_query = SeaQuery :: select ( ) ; count_query . from ( $T:chain ) . expr ( SeaFunc :: count ( SeaExpr :: col ( $I:args ) ) ) ;` => `let mut count_query = sel_count($T, $I);`
//@@ rw R7 `let mut query = SeaQuery :: select ( ) ; query . columns ( [ $C:args ] ) . from ( $T:chain ) ;` => `let mut query = sel_rows($T, [$C]);`
//@@ rw R7 `let ( sql , values ) = query . limit ( $L:args ) . offset ( $O:args ) . build_rusqlite ( SqliteQueryBuilder ) ;` => `let built = query.build_page($L, $O);`
//@@ rw R7 `let ( count_sql , count_values ) = count_query . build_rusqlite ( SqliteQueryBuilder ) ;` => `let count_built = count_query.build();`
//@@ rw R7 `conn . prepare ( count_sql . as_str ( ) ) . map_err ( map_db_err ) ? . query_row :: < usize , _ , _ > ( & * count_values . as_params ( ) , | row | row . get ( 0 ) ) . map_err ( map_db_err ) ?` => `conn.run_count(&count_built)?`
//@@ rw R7 `conn . prepare ( & sql ) . map_err ( map_db_err ) ? . query_map ( & * values . as_params ( ) , Self :: Item :: from_row ) . map_err ( map_db_err ) ? . map ( | v | v . unwrap ( ) ) . collect :: < Vec < _ > > ( )` => `conn.run_rows::<Rec>(&built)?`
//@@ rw R7 `count . div_ceil ( q . limit ( ) )` => `div_ceil_usize(count, q.limit())`
//@@ proof after=sel_rows#1
        proof {
            //# Q4-the-page-statement-names-every-column-of-the-record-in-mapper-order
            assert(query.s@.columns =~= all_cols());
        }
//@@ spec
    requires
        forall|i: int, j: int| 0 <= i < q.conds@.len() && 0 <= j < q.conds@[i].conds@.len() ==> translatable(#[trigger] q.conds@[i].conds@[j]),
        q.offset < usize::MAX,
    ensures
        //# Q4-a-query-runs-one-count-statement-and-one-page-statement-and-writes-nothing
        ret is Ok ==> final(db).executed.len() == old(db).executed.len() + 2 && final(db).rows == old(db).rows,
        //# Q4-the-count-statement-counts-the-filtered-records-of-the-table-without-any-window
        ret is Ok ==> final(db).executed[old(db).executed.len() as int] == (StmtR::Select(SelectAbs { table: "packages"@, columns: Seq::empty(), count_of: Some("id"@),
            filter: filter_of(*q), id_eq: None, order: Seq::empty(), limit: None, offset: None })),
        //# Q4-the-page-statement-selects-every-column-in-mapper-order-filtered-ordered-by-the-requested-keys-and-windowed
        ret is Ok ==> final(db).executed[old(db).executed.len() as int + 1] == (StmtR::Select(SelectAbs { table: "packages"@, columns: all_cols(), count_of: None,
            filter: filter_of(*q), id_eq: None, order: order_of(q.order_by@), limit: Some(q_limit(*q)), offset: Some(q.offset as int) })),
        //# Q3-the-answer-carries-the-count-of-the-count-statement-the-rows-of-the-page-statement-and-the-page-arithmetic
        ret is Ok ==> ret->Ok_0.count == count_result(final(db).executed[old(db).executed.len() as int], old(db).rows)
            && ret->Ok_0.rows@ == rows_result::<Rec>(final(db).executed[old(db).executed.len() as int + 1], old(db).rows)
            && ret->Ok_0.page_size as int == q_limit(*q) && ret->Ok_0.page_count as int == (ret->Ok_0.count as int + q_limit(*q) - 1) / q_limit(*q)
            && ret->Ok_0.page_num as int == q.offset as int / q_limit(*q) + 1,
//@@ loop 1
        invariant
            //# order-keys-so-far
            __v1@ == q.order_by@ && query.s@ == (SelectAbs { order: order_of(q.order_by@.take(__i1 as int)), ..query.s@ }) && query.s@.table == "packages"@ && query.s@.columns == all_cols()
                && query.s@.count_of is None && query.s@.filter == filter_of(*q) && query.s@.id_eq is None && query.s@.limit is None && query.s@.offset is None,
//@@ proof at=loop1
                proof {
                    let o = q.order_by@;
                    assert(o.take(__i1 as int + 1) =~= o.take(__i1 as int).push(o[__i1 as int]));
                    assert(order_of(o.take(__i1 as int + 1)) =~= order_of(o.take(__i1 as int)).push((o[__i1 as int].0@, o[__i1 as int].1)));
                }
//@@ proof at=afterloop1
            proof { assert(q.order_by@.take(q.order_by@.len() as int) =~= q.order_by@); }
//@@ proof before=is_empty#2
        proof { assert(order_of(q.order_by@.take(0)) =~= Seq::<(Seq<char>, bool)>::empty()); if q.order_by@.len() == 0 { assert(order_of(q.order_by@) =~= Seq::<(Seq<char>, bool)>::empty()); } }
//@@ end
//@@ extract file=store/sqlite/src/collection/package.rs in="impl DbCollection for PackageCollection" item="fn find" name=sqlite::Package::find
//@@ rw R7 `Result < Self :: Item >` => `Result<Rec>`
//@@ rw R7 `self . conn . get ( ) . unwrap ( )` => `self.conn.get_conn()`
//@@ rw R7 `let ( sql , values ) = SeaQuery :: select ( ) . from ( $T:chain ) . columns ( [ $C:args ] ) . and_where ( SeaExpr :: col ( $I:chain ) . eq ( id ) ) . build_rusqlite ( SqliteQueryBuilder ) ;` => `let built = sel_by_id($T, [$C], $I, id);`
//@@ rw R7 `let mut stmt = conn . prepare ( sql . as_str ( ) ) . map_err ( map_db_err ) ? ;` => ``
//@@ rw R7 `stmt . query_row ( & * values . as_params ( ) , Self :: Item :: from_row ) . map_err ( map_db_err ) ?` => `conn.run_row::<Rec>(&built)?`
//@@ proof after=sel_by_id#1
        proof {
            //# Q4-find-names-every-column-of-the-record-in-mapper-order
            assert(built.b@->Select_0.columns =~= all_cols());
        }
//@@ spec
    ensures
        //# Q4-find-selects-every-column-in-mapper-order-of-the-row-with-that-id
        ret is Ok ==> final(db).executed == old(db).executed.push(StmtR::Select(SelectAbs { table: "packages"@, columns: all_cols(), count_of: None, filter: None, id_eq: Some(id@), order: Seq::empty(), limit: None, offset: None }))
            && final(db).rows == old(db).rows,
//@@ end
//@@ extract file=store/sqlite/src/collection/package.rs in="impl DbCollection for PackageCollection" item="fn exists" name=sqlite::Package::exists
//@@ rw R7 `self . conn . get ( ) . unwrap ( )` => `self.conn.get_conn()`
//@@ rw R7 `let ( sql , values ) = SeaQuery :: select ( ) . from ( $T:chain ) . expr ( SeaFunc :: count ( SeaExpr :: col ( $I:chain ) ) ) . and_where ( SeaExpr :: col ( $J:chain ) . eq ( id ) ) . build_rusqlite ( SqliteQueryBuilder ) ;` => `let built = sel_count_by_id($T, $I, $J, id);`
//@@ rw R7 `let mut stmt = conn . prepare ( sql . as_str ( ) ) . map_err ( map_db_err ) ? ;` => ``
//@@ rw R7 `stmt . query_row ( & * values . as_params ( ) , | row | row . get :: < usize , i64 > ( 0 ) ) . map_err ( map_db_err ) ?` => `conn.run_scalar(&built)?`
//@@ spec
    ensures
        //# Q4-exists-counts-the-rows-with-that-id
        ret is Ok ==> final(db).executed == old(db).executed.push(StmtR::Select(SelectAbs { table: "packages"@, columns: Seq::empty(), count_of: Some("id"@), filter: None, id_eq: Some(id@), order: Seq::empty(), limit: None, offset: None }))
            && final(db).rows == old(db).rows && ret->Ok_0 == (scalar_result(final(db).executed.last(), old(db).rows) > 0),
//@@ end
//@@ extract file=store/sqlite/src/collection/package.rs in="impl DbCollection for PackageCollection" item="fn delete" name=sqlite::Package::delete
//@@ rw R7 `self . conn . get ( ) . unwrap ( )` => `self.conn.get_conn()`
//@@ rw R7 `let ( sql , values ) = SeaQuery :: delete ( ) . from_table ( $T:chain ) . and_where ( SeaExpr :: col ( $I:chain ) . eq ( id ) ) . build_rusqlite ( SqliteQueryBuilder ) ;` => `let built = del_by_id($T, $I, id);`
//@@ rw R7 `conn . execute ( sql . as_str ( ) , & * values . as_params ( ) ) . map_err ( map_db_err ) ?` => `conn.execute(&built)?`
//@@ spec
    ensures
        //# Q4-delete-removes-the-row-with-that-id-from-its-own-table-and-nothing-else
        ret is Ok ==> final(db).executed == old(db).executed.push(StmtR::Delete { table: "packages"@, id_col: "id"@, id: id@ }),
        //# Q4-a-refused-delete-writes-nothing
        ret is Err ==> *final(db) == *old(db),
//@@ end
}
}
} // verus!
fn main() {}
