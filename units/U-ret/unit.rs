// U-ret: retention (C17) against the abstract store.
//@@ unit U-ret
//@@ default props=C17 rewrites=R1,R2,R3,R5,R13 ghost="Tracked(st): Tracked<&mut StoreAbs>" ghostarg="Tracked(st)"
//@@ heapmethods query delete find create update time_millis
use vstd::prelude::*;
verus! {
//@@ include prelude/store.rs
//@@ include prelude/rows.rs
//@@ include prelude/storeabs.rs

pub open spec fn pid_query(q: Query, pid: Seq<char>) -> bool {
    q.conds@.len() == 1 && q.conds@[0].r#type == CondType::And && q.conds@[0].conds@.len() == 1 && q.limit == 100000
    && q.conds@[0].conds@[0].op == ExprOp::EQ && q.conds@[0].conds@[0].key@ == "pid"@ && q.conds@[0].conds@[0].value@ == JsonV::Str(pid)
}
pub open spec fn task_of(pid: Seq<char>) -> spec_fn(data::Task) -> bool { |t: data::Task| t.pid@ == pid }
pub proof fn lemma_pid_query(q: Query, pid: Seq<char>)
    requires pid_query(q, pid)
    ensures forall|t: data::Task| #[trigger] query_holds(q, t) <==> task_of(pid)(t)
{
    assert("pid"@ != "id"@) by { reveal_strlit("pid"); reveal_strlit("id"); assert("pid"@.len() != "id"@.len()); }
    assert forall|t: data::Task| #[trigger] query_holds(q, t) <==> task_of(pid)(t) by {
        reveal(query_holds); reveal(cond_holds);
        let c = q.conds@[0];
        if t.pid@ == pid { assert(cond_holds(c, t)); }
        if query_holds(q, t) { assert(cond_holds(c, t)); assert(expr_holds(c.conds@[0].op, t.field(c.conds@[0].key@), c.conds@[0].value@)); }
    }
}

impl Store {
//@@ extract file=acts/src/cache/store.rs in="impl Store" item="fn remove_proc" name=Store::remove_proc
//@@ rw R19 `for $X:id in $V:chain $B:block` => `for $X in $V.iter() $B`
//@@ spec
    requires
        old(st).wf(),
        // the default query limit (100000) must cover the tasks of one process -- listed assumption
        sel_count(old(st).tasks, task_of(pid@)) <= 100000,
    ensures
        //# T3-tasks-removed
        ret is Ok ==> forall|id: Seq<char>| final(st).tasks.dom().contains(id) <==> (old(st).tasks.dom().contains(id) && old(st).tasks[id].pid@ != pid@),
        //# T3-other-tasks-kept
        forall|id: Seq<char>| old(st).tasks.dom().contains(id) && old(st).tasks[id].pid@ != pid@ ==> final(st).tasks.dom().contains(id) && final(st).tasks[id] == old(st).tasks[id],
        //# T3-proc-removed
        ret is Ok ==> final(st).procs == old(st).procs.remove(pid@),
        //# T3-other-procs-kept
        forall|id: Seq<char>| id != pid@ && old(st).procs.dom().contains(id) ==> final(st).procs.dom().contains(id) && final(st).procs[id] == old(st).procs[id],
        //# T3-messages-untouched
        final(st).messages == old(st).messages,
        //# T3-models-events-untouched
        final(st).models == old(st).models && final(st).events == old(st).events,
        //# T3-no-new-rows
        forall|id: Seq<char>| final(st).tasks.dom().contains(id) ==> old(st).tasks.dom().contains(id) && final(st).tasks[id] == old(st).tasks[id],
//@@ proof at=beforeloop1
        proof { assert(pid_query(q, pid@)); lemma_pid_query(q, pid@); lemma_query_rows(old(st).tasks, q, tasks.rows@, task_of(pid@)); }
//@@ loop 1
        invariant
            //# T3-inv-frame
            st.procs == old(st).procs && st.messages == old(st).messages && st.models == old(st).models && st.events == old(st).events,
            //# T3-inv-rows
            sel_sound(old(st).tasks, __v1@, task_of(pid@)) && sel_complete(old(st).tasks, __v1@, task_of(pid@)) && old(st).wf(),
            //# T3-inv-kept
            forall|id: Seq<char>| #[trigger] st.tasks.dom().contains(id) <==> (old(st).tasks.dom().contains(id)
                && !(exists|j: int| 0 <= j < __i1 && (#[trigger] __v1@[j]).id@ == id)),
            //# T3-inv-values
            forall|id: Seq<char>| st.tasks.dom().contains(id) ==> #[trigger] st.tasks[id] == old(st).tasks[id],
//@@ proof at=afterloop1
        proof {
            let rows = tasks.rows@;
            assert forall|id: Seq<char>| st.tasks.dom().contains(id) <==> (old(st).tasks.dom().contains(id) && old(st).tasks[id].pid@ != pid@) by {
                if old(st).tasks.dom().contains(id) && old(st).tasks[id].pid@ == pid@ {
                    assert(task_of(pid@)(old(st).tasks[id]));
                    let j = choose|j: int| 0 <= j < rows.len() && (#[trigger] rows[j]).rid() == id;
                    assert(rows[j].id@ == id);
                }
                if old(st).tasks.dom().contains(id) && old(st).tasks[id].pid@ != pid@ {
                    if exists|j: int| 0 <= j < rows.len() && (#[trigger] rows[j]).id@ == id {
                        let j = choose|j: int| 0 <= j < rows.len() && (#[trigger] rows[j]).id@ == id;
                        assert(old(st).tasks[rows[j].rid()] == rows[j]);
                    }
                }
            }
        }
//@@ end
}

} // verus!
fn main() {}
