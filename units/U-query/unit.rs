// U-query: AND/OR accumulation of the in-memory store (C10-Q1) and Query::limit (Q3).
// Prelude: std::collections::HashSet is replaced by an abstract set type with ASSUMED std semantics
// (new / is_empty / clone / intersection / union); R7 lowers the two adapter chains onto it.
//@@ unit U-query
//@@ default props=C10 rewrites=R1,R2,R3,R5,R13
use vstd::prelude::*;
verus! {

// TRUSTED: std HashSet semantics, viewed as a mathematical set of keys
#[verifier::external_body]
#[verifier::reject_recursive_types(K)]
pub struct HashSet<K> { _k: std::marker::PhantomData<K> }
impl<K> HashSet<K> {
    pub uninterp spec fn view(&self) -> Set<K>;
    #[verifier::external_body]
    pub fn new() -> (r: Self) ensures r@ == Set::<K>::empty() { unimplemented!() }
    #[verifier::external_body]
    pub fn is_empty(&self) -> (r: bool) ensures r == (self@ =~= Set::<K>::empty()) { unimplemented!() }
}
impl<K> Clone for HashSet<K> {
    #[verifier::external_body]
    fn clone(&self) -> (r: Self) ensures r@ == self@ { unimplemented!() }
}
// TRUSTED: `a.intersection(b).cloned().collect::<HashSet<_>>()` is set intersection (R7)
#[verifier::external_body]
pub fn hs_intersection<K>(a: &HashSet<K>, b: &HashSet<K>) -> (r: HashSet<K>) ensures r@ == a@.intersect(b@) { unimplemented!() }
// TRUSTED: `a.union(b).cloned().collect::<HashSet<_>>()` is set union (R7)
#[verifier::external_body]
pub fn hs_union<K>(a: &HashSet<K>, b: &HashSet<K>) -> (r: HashSet<K>) ensures r@ == a@.union(b@) { unimplemented!() }

#[derive(Clone)]
#[verifier::allow(autoderive_clone_without_spec)]
pub struct Value {}   // serde_json::Value: opaque here

//@@ extract file=acts/src/store/query.rs item="enum CondType"
//@@ end
//@@ extract file=acts/src/store/query.rs item="enum ExprOp"
//@@ opt structural
//@@ end
//@@ extract file=acts/src/store/query.rs item="struct Expr"
//@@ end
//@@ extract file=acts/src/store/query.rs item="struct Cond"
//@@ end
//@@ extract file=acts/src/store/query.rs item="struct Query"
//@@ end

// ---- oracle (from the statement: "exactly the records satisfying its AND/OR filter")
// match sets of the sub-conditions fed so far, combined
pub open spec fn acc_and<K>(fed: Seq<Set<K>>) -> Set<K>
    decreases fed.len()
{
    if fed.len() <= 1 { if fed.len() == 1 { fed[0] } else { Set::empty() /* unconstrained: not used (callers feed >= 1 set) */ } } else { acc_and(fed.drop_last()).intersect(fed.last()) }
}
pub open spec fn acc_or<K>(fed: Seq<Set<K>>) -> Set<K>
    decreases fed.len()
{
    if fed.len() == 0 { Set::empty() } else { acc_or(fed.drop_last()).union(fed.last()) }
}
pub open spec fn cond_acc(t: CondType, fed: Seq<Set<Box<[u8]>>>) -> Set<Box<[u8]>> {
    match t { CondType::And => acc_and(fed), CondType::Or => acc_or(fed) }
}

impl Cond {
//@@ extract file=acts/src/store/db/mem/collect.rs in="impl Cond" item="fn calc" name=Cond::calc
//@@ opt ghost="Ghost(fed): Ghost<Seq<Set<Box<[u8]>>>>"
//@@ rw R7 `$A:chain . intersection ( $B ) . cloned ( ) . collect :: < HashSet < _ > > ( )` => `hs_intersection(&$A, $B)`
//@@ rw R7 `$A:chain . union ( $B ) . cloned ( ) . collect :: < HashSet < _ > > ( )` => `hs_union(&$A, $B)`
//@@ spec
    requires
        // `fed` (ghost) = match sets of the expressions of this condition evaluated so far
        old(self).calculated == (fed.len() > 0),
        fed.len() > 0 ==> old(self).result@ =~= cond_acc(old(self).r#type, fed),
    ensures
        //# Q1-cond-acc
        final(self).result@ =~= cond_acc(old(self).r#type, fed.push(v@)),
        //# Q1-cond-inv
        final(self).calculated,
        //# Q1-frame
        final(self).r#type == old(self).r#type && final(self).conds == old(self).conds,
//@@ proof at=start
        proof { reveal_with_fuel(acc_or, 2); reveal_with_fuel(acc_and, 2); assert(fed.push(v@).drop_last() =~= fed); assert(fed.push(v@).last() == v@); }
//@@ end
}

pub open spec fn query_results(conds: Seq<Cond>) -> Seq<Set<Box<[u8]>>> {
    conds.map_values(|c: Cond| c.result@)
}

impl Query {
    // the struct's fields are private: closed spec accessors
    pub closed spec fn s_limit(&self) -> usize { self.limit }
    pub closed spec fn s_offset(&self) -> usize { self.offset }
    pub closed spec fn s_conds(&self) -> Seq<Cond> { self.conds@ }
//@@ extract file=acts/src/store/query.rs in="impl Query" item="fn calc" name=Query::calc
//@@ rw R7 `$A:chain . intersection ( $B ) . cloned ( ) . collect :: < HashSet < _ > > ( )` => `hs_intersection(&$A, $B)`
//@@ spec
    requires
        self.s_conds().len() > 0,
    ensures
        //# Q1-query-and
        ret@ =~= acc_and(query_results(self.s_conds())),
//@@ loop 1
        invariant
            //# Q1-vec
            __v1@ == self.conds@,
            //# Q1-first-flag
            first == (__i1 == 0),
            //# Q1-prefix
            __i1 > 0 ==> result@ =~= acc_and(query_results(__v1@).take(__i1 as int)),
            //# Q1-done
            __i1 == __v1@.len() ==> result@ =~= acc_and(query_results(__v1@)),
//@@ proof at=loop1
            proof {
                let i = __i1 as int;
                let qs = query_results(__v1@);
                assert(qs.take(i + 1).drop_last() =~= qs.take(i));
                assert(qs.take(i + 1).last() == __v1@[i].result@);
                assert(qs.take(qs.len() as int) =~= qs);
            }
//@@ end

//@@ extract file=acts/src/store/query.rs in="impl Query" item="fn limit" name=Query::limit
//@@ spec
    ensures
        //# Q3-limit-nonzero
        ret > 0,
        //# Q3-limit
        ret == (if self.s_limit() == 0 { 50usize } else { self.s_limit() }),
//@@ end

//@@ extract file=acts/src/store/query.rs in="impl Query" item="fn offset" name=Query::offset
//@@ spec
    ensures
        //# Q3-offset
        ret == self.s_offset(),
//@@ end
}

} // verus!
fn main() {}
