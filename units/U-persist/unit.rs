// U-persist: what is written to the store (C11-S1/S2) and the removal-safe write-back (C17), against the abstract store.
//@@ unit U-persist
//@@ default props=C11 rewrites=R1,R2,R3,R5,R13 ghost="Tracked(st): Tracked<&mut StoreAbs>" ghostarg="Tracked(st)"
//@@ heapmethods query delete find create update time_millis upsert_task upsert_proc into_data
use vstd::prelude::*;
use std::sync::Arc;
verus! {
//@@ include prelude/std_specs.rs
//@@ include prelude/store.rs
//@@ include prelude/rows.rs
//@@ include prelude/storeabs.rs
//@@ include prelude/state.rs HAVE_MESSAGE_STATE=1

// ---- the live objects, seen through their getters (each getter = one RwLock read; ASSUMED plain reads)
pub uninterp spec fn state_str(s: TaskState) -> Seq<char>;     // state_to_str (scheduler/state.rs): checked with Kani (K-state)
// TRUSTED: `impl From<TaskState> for String` = state_to_str
#[verifier::external_body]
pub fn state_into_string(s: TaskState) -> (r: String) ensures r@ == state_str(s) { unimplemented!() }
// reading the stored text back (`impl From<String> for TaskState` = str_to_state).  TRUSTED here, PROVED in unit K-state (Kani, all 13 states):
// str_to_state(state_to_str(s)) == s.  Not used by the unchanged write path; it lets the unit follow code that reads a row's state.
pub uninterp spec fn state_of_str(s: Seq<char>) -> TaskState;
#[verifier::external_body]
pub broadcast proof fn axiom_state_text_round_trip(s: TaskState) ensures #[trigger] state_of_str(state_str(s)) == s {}
impl vstd::std_specs::convert::FromSpecImpl<String> for TaskState {
    open spec fn obeys_from_spec() -> bool { true }
    open spec fn from_spec(s: String) -> Self { state_of_str(s@) }
}
impl From<String> for TaskState {
    #[verifier::external_body]
    fn from(s: String) -> (r: Self) ensures r == state_of_str(s@) { unimplemented!() }
}
#[verifier::external_body]
pub struct NodeObj { _p: u8 }
impl NodeObj {
    pub uninterp spec fn s_name(&self) -> Seq<char>;
    pub uninterp spec fn s_kind(&self) -> Seq<char>;
    pub uninterp spec fn s_text(&self) -> Seq<char>;
    #[verifier::external_body] pub fn content_name(&self) -> (r: String) ensures r@ == self.s_name() { unimplemented!() }
    #[verifier::external_body] pub fn kind_string(&self) -> (r: String) ensures r@ == self.s_kind() { unimplemented!() }
    #[verifier::external_body] pub fn to_string(&self) -> (r: String) ensures r@ == self.s_text() { unimplemented!() }
}
pub struct ProcObj { pub id: String, pub timestamp: i64 }
pub struct Task { pub pid: String, pub id: String, pub timestamp: i64, pub node: Arc<NodeObj>, pub proc: Arc<ProcObj> }
// live fields (behind locks), per object: uninterpreted functions of the object -- these functions only READ them
impl Task {
    pub uninterp spec fn l_prev(&self) -> Option<Seq<char>>;
    pub uninterp spec fn l_state(&self) -> TaskState;
    pub uninterp spec fn l_data(&self) -> Seq<char>;
    pub uninterp spec fn l_start(&self) -> i64;
    pub uninterp spec fn l_end(&self) -> i64;
    pub uninterp spec fn l_hooks(&self) -> Seq<char>;
    pub uninterp spec fn l_err(&self) -> Option<Seq<char>>;
    #[verifier::external_body] pub fn prev(&self) -> (r: Option<String>) ensures opt_view(r) == self.l_prev() { unimplemented!() }
    #[verifier::external_body] pub fn state(&self) -> (r: TaskState) ensures r == self.l_state() { unimplemented!() }
    #[verifier::external_body] pub fn data_text(&self) -> (r: String) ensures r@ == self.l_data() { unimplemented!() }
    #[verifier::external_body] pub fn start_time(&self) -> (r: i64) ensures r == self.l_start() { unimplemented!() }
    #[verifier::external_body] pub fn end_time(&self) -> (r: i64) ensures r == self.l_end() { unimplemented!() }
    #[verifier::external_body] pub fn hooks_json(&self) -> (r: Result<String>) ensures r is Ok ==> r->Ok_0@ == self.l_hooks() { unimplemented!() }
    #[verifier::external_body] pub fn err_text(&self) -> (r: Option<String>) ensures opt_view(r) == self.l_err() { unimplemented!() }
    #[verifier::external_body] pub fn proc(&self) -> (r: &Arc<ProcObj>) ensures *r == self.proc { unimplemented!() }
}
impl ProcObj {
    pub uninterp spec fn l_state(&self) -> TaskState;
    pub uninterp spec fn l_start(&self) -> i64;
    pub uninterp spec fn l_end(&self) -> i64;
    pub uninterp spec fn l_env(&self) -> Seq<char>;
    pub uninterp spec fn l_err(&self) -> Option<Seq<char>>;
    pub uninterp spec fn l_model(&self) -> (Seq<char>, Seq<char>, Seq<char>);      // (json text, id, name) of the model
    #[verifier::external_body] pub fn state(&self) -> (r: TaskState) ensures r == self.l_state() { unimplemented!() }
    #[verifier::external_body] pub fn start_time(&self) -> (r: i64) ensures r == self.l_start() { unimplemented!() }
    #[verifier::external_body] pub fn end_time(&self) -> (r: i64) ensures r == self.l_end() { unimplemented!() }
    #[verifier::external_body] pub fn timestamp(&self) -> (r: i64) ensures r == self.timestamp { unimplemented!() }
    #[verifier::external_body] pub fn id(&self) -> (r: &str) ensures r@ == self.id@ { unimplemented!() }
}
pub mod scheduler { pub use super::Task; pub use super::ProcObj as Process; }
pub open spec fn opt_view(o: Option<String>) -> Option<Seq<char>> { match o { Some(s) => Some(s@), None => None } }
// TRUSTED: utils::Id::new(pid, tid).id() = pid ++ ":" ++ tid for a non-empty tid (R7)
#[verifier::external_body]
pub fn task_row_id(pid: &String, tid: &String) -> (r: String) ensures r@ == pid@ + ":"@ + tid@ { unimplemented!() }

// ---- oracle (C11): the task row is the image of the live task
pub open spec fn task_image(t: Task) -> data::Task {
    data::Task { id: arb_str(t.pid@ + ":"@ + t.id@), pid: t.pid, tid: t.id, node_data: arb_str(t.node.s_text()), kind: arb_str(t.node.s_kind()), prev: arb_opt(t.l_prev()),
        name: arb_str(t.node.s_name()), state: arb_str(state_str(t.l_state())), data: arb_str(t.l_data()), err: arb_opt(t.l_err()),
        start_time: t.l_start(), end_time: t.l_end(), hooks: arb_str(t.l_hooks()), timestamp: t.timestamp }
}
pub uninterp spec fn arb_str(s: Seq<char>) -> String;
pub uninterp spec fn arb_opt(s: Option<Seq<char>>) -> Option<String>;
// field-wise agreement (Strings compared by their characters)
pub open spec fn task_row_is(r: data::Task, t: Task) -> bool {
    r.id@ == t.pid@ + ":"@ + t.id@ && r.pid@ == t.pid@ && r.tid@ == t.id@ && r.node_data@ == t.node.s_text() && r.kind@ == t.node.s_kind() && opt_view(r.prev) == t.l_prev()
        && r.name@ == t.node.s_name() && r.state@ == state_str(t.l_state()) && r.data@ == t.l_data() && opt_view(r.err) == t.l_err()
        && r.start_time == t.l_start() && r.end_time == t.l_end() && r.hooks@ == t.l_hooks() && r.timestamp == t.timestamp
}

impl Task {
//@@ extract file=acts/src/scheduler/process/task.rs in="impl Task" item="fn into_data" name=Task::into_data props=C11,C12
//@@ opt noghost
//@@ rw R7 `let id = utils :: Id :: new ( & self . pid , & self . id ) ;` => ``
//@@ rw R7 `id . id ( )` => `task_row_id(&self.pid, &self.id)`
//@@ rw R7 `self . node . content . name ( )` => `self.node.content_name()`
//@@ rw R7 `self . node . kind ( ) . to_string ( )` => `self.node.kind_string()`
//@@ rw R7 `self . state ( ) . into ( )` => `state_into_string(self.state())`
//@@ rw R7 `self . data ( ) . to_string ( )` => `self.data_text()`
//@@ rw R7 `serde_json :: to_string ( & self . hooks ( ) ) . map_err ( ActError :: from ) ?` => `self.hooks_json()?`
//@@ rw R7 `self . err ( ) . map ( | err | err . to_string ( ) )` => `self.err_text()`
//@@ spec
    ensures
        //# S1-task-row-is-the-live-task
        ret is Ok ==> task_row_is(ret->Ok_0, **self),
//@@ end
}

pub struct WorkflowX { pub id: String, pub name: String }
impl WorkflowX {
    pub uninterp spec fn s_json(&self) -> Seq<char>;
    // TRUSTED: Workflow::to_json (serde, derive-generated)
    #[verifier::external_body] pub fn to_json(&self) -> (r: Result<String>) ensures r is Ok ==> r->Ok_0@ == self.s_json() { unimplemented!() }
}
impl ProcObj {
    pub uninterp spec fn l_wf(&self) -> WorkflowX;
    #[verifier::external_body] pub fn model(&self) -> (r: Box<WorkflowX>) ensures *r == self.l_wf() { unimplemented!() }
    #[verifier::external_body] pub fn env_text(&self) -> (r: String) ensures r@ == self.l_env() { unimplemented!() }
    #[verifier::external_body] pub fn err_text(&self) -> (r: Option<String>) ensures opt_view(r) == self.l_err() { unimplemented!() }
}
pub open spec fn proc_row_is(r: data::Proc, p: ProcObj) -> bool {
    r.id@ == p.id@ && r.model@ == p.l_wf().s_json() && r.mid@ == p.l_wf().id@ && r.name@ == p.l_wf().name@ && r.state@ == state_str(p.l_state())
        && r.start_time == p.l_start() && r.end_time == p.l_end() && r.timestamp == p.timestamp && r.env@ == p.l_env() && opt_view(r.err) == p.l_err()
}
impl ProcObj {
//@@ extract file=acts/src/scheduler/process/process.rs in="impl Process" item="fn into_data" name=Process::into_data props=C11,C12
//@@ opt noghost
//@@ rw R7 `self . state ( ) . into ( )` => `state_into_string(self.state())`
//@@ rw R7 `self . env ( ) . to_string ( )` => `self.env_text()`
//@@ rw R7 `self . err ( ) . map ( | err | err . to_string ( ) )` => `self.err_text()`
//@@ spec
    ensures
        //# S1-process-row-is-the-live-process
        ret is Ok ==> proc_row_is(ret->Ok_0, **self),
//@@ end
}
// ---- write-back
impl Store {
//@@ extract file=acts/src/cache/store.rs in="impl Store" item="fn upsert_proc" name=Store::upsert_proc props=C11
//@@ opt noheap=into_data
//@@ spec
    requires old(st).wf()
    ensures
        //# S2-process-row-upserted
        ret is Ok ==> final(st).procs.dom().contains(proc.id@) && proc_row_is(final(st).procs[proc.id@], **proc),
        //# S2-frame
        final(st).tasks == old(st).tasks && final(st).messages == old(st).messages && final(st).models == old(st).models && final(st).events == old(st).events
            && forall|k: Seq<char>| k != proc.id@ ==> (final(st).procs.dom().contains(k) <==> old(st).procs.dom().contains(k))
                && (old(st).procs.dom().contains(k) ==> final(st).procs[k] == old(st).procs[k]),
//@@ end
//@@ extract file=acts/src/cache/store.rs in="impl Store" item="fn upsert_task" name=Store::upsert_task props=C11
//@@ rw R7 `let data : data :: Task = task . into_data ( ) ? ;` => `let data: data::Task = task.into_data()?;`
//@@ rw R7 `let id = Id :: new ( & task . pid , & task . id ) ;` => ``
//@@ rw R7 `id . id ( )` => `task_row_id(&task.pid, &task.id)`
//@@ opt noheap=into_data
//@@ spec
    requires old(st).wf()
    ensures
        //# S2-task-row-upserted
        ret is Ok ==> final(st).tasks.dom().contains(task.pid@ + ":"@ + task.id@) && task_row_is(final(st).tasks[task.pid@ + ":"@ + task.id@], **task),
        //# S2-frame
        final(st).procs == old(st).procs && final(st).messages == old(st).messages && final(st).models == old(st).models && final(st).events == old(st).events
            && forall|k: Seq<char>| k != task.pid@ + ":"@ + task.id@ ==> (final(st).tasks.dom().contains(k) <==> old(st).tasks.dom().contains(k))
                && (old(st).tasks.dom().contains(k) ==> final(st).tasks[k] == old(st).tasks[k]),
//@@ end
}


#[verifier::external_body]
pub struct ProcCache { _p: u8 }
impl ProcCache {
    // moka cache lookup (ASSUMED: returns the cached process object or None)
    #[verifier::external_body]
    pub fn get(&self, pid: &String) -> (r: Option<Arc<ProcObj>>) { unimplemented!() }
}
impl ProcObj {
    // cached process object updates (in-memory only)
    #[verifier::external_body] pub fn set_pure_state(&self, s: TaskState) { unimplemented!() }
    #[verifier::external_body] pub fn set_end_time(&self, t: i64) { unimplemented!() }
    #[verifier::external_body] pub fn push_task(&self, t: Arc<Task>) { unimplemented!() }
}
pub struct Cache { pub store: Arc<Store>, pub procs: ProcCache }
impl Cache {
//@@ extract file=acts/src/cache/cache.rs in="impl Cache" item="fn push_task_pri" name=Cache::push_task_pri props=C11,C17
//@@ rw R7 `p . state ( ) . into ( )` => `state_into_string(p.state())`
//@@ rw R7 `p . env ( ) . to_string ( )` => `p.env_text()`
//@@ spec
    requires old(st).wf()
    ensures
        //# T2-a-task-event-never-creates-a-process-row
        forall|k: Seq<char>| final(st).procs.dom().contains(k) ==> old(st).procs.dom().contains(k),
        //# T2-no-process-row-nothing-written
        save && !old(st).procs.dom().contains(task.pid@) ==> ret is Err && *final(st) == *old(st),
        //# S2-process-row-patched-from-the-live-process
        save && ret is Ok ==> final(st).procs.dom().contains(task.pid@) && final(st).procs[task.pid@].end_time == task.proc.l_end()
            && final(st).procs[task.pid@].state@ == state_str(task.proc.l_state())
            && final(st).procs[task.pid@] == (data::Proc { end_time: final(st).procs[task.pid@].end_time, state: final(st).procs[task.pid@].state, env: final(st).procs[task.pid@].env, ..old(st).procs[task.pid@] }),
        //# S2-the-process-row-carries-the-environment-of-the-live-process [C11,C12,C13]
        save && ret is Ok ==> final(st).procs[task.pid@].env@ == task.proc.l_env(),
        //# S2-task-row-written
        save && ret is Ok ==> final(st).tasks.dom().contains(task.pid@ + ":"@ + task.id@) && task_row_is(final(st).tasks[task.pid@ + ":"@ + task.id@], **task),
        //# S2-other-rows-untouched
        final(st).messages == old(st).messages && final(st).models == old(st).models && final(st).events == old(st).events
            && forall|k: Seq<char>| k != task.pid@ && old(st).procs.dom().contains(k) ==> final(st).procs.dom().contains(k) && final(st).procs[k] == old(st).procs[k],
        //# S2-cache-only-update-writes-nothing
        !save ==> *final(st) == *old(st),
//@@ end
}
} // verus!
fn main() {}
