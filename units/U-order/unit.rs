// U-order: the ordering of query results of the in-memory store (C10: "ordered by the requested keys (numbers numerically)").
// The comparator closure handed to `rows.sort_by(..)` inside Collect::query is lifted (R9) into a function and proved equal to the
// lexicographic order over the requested keys, each key in its own direction, numbers compared numerically.
// TRUSTED: slice::sort_by sorts by the comparator it is given; serde_json::Value / Number accessors as modelled below.
//@@ unit U-order
//@@ default props=C10 rewrites=R1,R2,R3,R5,R13,R15 bodyprelude="broadcast use {axiom_text_cmp_swap, axiom_real_cmp_swap};"
use vstd::prelude::*;
use core::cmp::Ordering;
verus! {
// ---- serde_json, as far as the comparator looks at it (ASSUMED contracts on the dependency)
pub enum NumV { I(int), U(int), F(int) }      // i64-valued, u64-valued beyond i64, float (opaque id)
#[verifier::external_body]
pub struct Number { _p: u8 }
impl Number {
    pub uninterp spec fn view(&self) -> NumV;
    #[verifier::external_body]
    pub fn as_i64(&self) -> (r: Option<i64>)
        ensures match self@ { NumV::I(i) => r == Some(i as i64) && i64::MIN <= i <= i64::MAX, _ => r is None } { unimplemented!() }
    #[verifier::external_body]
    pub fn as_f64(&self) -> (r: Option<f64>) ensures r is Some, f64_of(r->Some_0) == num_real(self@) { unimplemented!() }
    #[verifier::external_body]
    pub fn is_i64(&self) -> (r: bool) ensures r == (self@ is I) { unimplemented!() }
    #[verifier::external_body]
    pub fn is_f64(&self) -> (r: bool) ensures r == (self@ is F) { unimplemented!() }
}
pub uninterp spec fn f64_of(x: f64) -> int;            // an abstract id of the float value
pub uninterp spec fn num_real(n: NumV) -> int;         // the float a number converts to (as_f64), abstractly
pub uninterp spec fn real_cmp(a: int, b: int) -> Ordering;   // f64::partial_cmp(..).unwrap_or(Equal) on those
// R7: `x.partial_cmp(&y).unwrap_or(Ordering::Equal)` on f64 (no Verus spec for float comparison)
#[verifier::external_body]
pub fn f64_order(a: f64, b: f64) -> (r: Ordering) ensures r == real_cmp(f64_of(a), f64_of(b)) { unimplemented!() }

#[verifier::external_body]
pub struct Opaque { _p: u8 }
pub enum JsonValue { Null, Bool(bool), Number(Number), String(String), Array(Opaque), Object(Opaque) }
pub uninterp spec fn json_text(v: JsonValue) -> Seq<char>;          // serde_json's Display of the value
pub uninterp spec fn text_cmp(a: Seq<char>, b: Seq<char>) -> Ordering;   // byte-wise order of two strings (Ord for String)
impl JsonValue {
    #[verifier::external_body]
    pub fn to_string(&self) -> (r: String) ensures r@ == json_text(*self) { unimplemented!() }
}
pub assume_specification[ <String as Ord>::cmp ](a: &String, b: &String) -> (r: Ordering) ensures r == text_cmp(a@, b@);
pub open spec fn ord_then(a: Ordering, b: Ordering) -> Ordering { if a is Equal { b } else { a } }
pub open spec fn ord_rev(a: Ordering) -> Ordering {
    match a { Ordering::Less => Ordering::Greater, Ordering::Equal => Ordering::Equal, Ordering::Greater => Ordering::Less }
}
pub assume_specification[ Ordering::then ](a: Ordering, b: Ordering) -> (r: Ordering) ensures r == ord_then(a, b);
pub assume_specification[ Ordering::reverse ](a: Ordering) -> (r: Ordering) ensures r == ord_rev(a);
pub open spec fn int_cmp(a: int, b: int) -> Ordering { if a < b { Ordering::Less } else if a == b { Ordering::Equal } else { Ordering::Greater } }
// ASSUMED about the two uninterpreted orders: swapping the operands reverses the result (String and f64 comparison are antisymmetric)
#[verifier::external_body]
pub broadcast proof fn axiom_text_cmp_swap(a: Seq<char>, b: Seq<char>) ensures #[trigger] text_cmp(b, a) == ord_rev(text_cmp(a, b)) {}
#[verifier::external_body]
pub broadcast proof fn axiom_real_cmp_swap(a: int, b: int) ensures #[trigger] real_cmp(b, a) == ord_rev(real_cmp(a, b)) {}

// a stored document: field name -> JSON value (HashMap<String, JsonValue>)
#[verifier::external_body]
pub struct Doc { _p: u8 }
impl Doc {
    pub uninterp spec fn field(&self, k: Seq<char>) -> Option<JsonValue>;
    #[verifier::external_body]
    pub fn get(&self, k: &String) -> (r: Option<&JsonValue>)
        ensures r is Some <==> self.field(k@) is Some, r is Some ==> *r->Some_0 == self.field(k@)->Some_0 { unimplemented!() }
}
pub struct Query { pub order_by: Vec<(String, bool)> }
impl Query {
//@@ extract file=acts/src/store/query.rs in="impl Query" item="fn order_by" name=Query::order_by
//@@ spec
        ensures *ret == self.order_by
//@@ end
}

// ---- oracle, from the statement: one key: numbers numerically, everything else by its JSON text; several keys: lexicographic,
//      each key in its own direction
pub open spec fn key_cmp(x: JsonValue, y: JsonValue) -> Ordering {
    if x is Number && y is Number {
        if x->Number_0@ is I && y->Number_0@ is I { int_cmp(x->Number_0@->I_0, y->Number_0@->I_0) }
        else { real_cmp(num_real(x->Number_0@), num_real(y->Number_0@)) }
    } else { text_cmp(json_text(x), json_text(y)) }
}
pub proof fn lemma_key_cmp_swap(x: JsonValue, y: JsonValue)
    ensures key_cmp(y, x) == ord_rev(key_cmp(x, y))
{
    broadcast use {axiom_text_cmp_swap, axiom_real_cmp_swap};
    if x is Number && y is Number {
        if x->Number_0@ is I && y->Number_0@ is I {} else { axiom_real_cmp_swap(num_real(x->Number_0@), num_real(y->Number_0@)); }
    } else { axiom_text_cmp_swap(json_text(x), json_text(y)); }
}
pub open spec fn dir(c: Ordering, rev: bool) -> Ordering { if rev { ord_rev(c) } else { c } }
pub open spec fn lex_cmp(a: Doc, b: Doc, keys: Seq<(String, bool)>, n: int) -> Ordering
    decreases n
{
    if n <= 0 { Ordering::Equal }
    else { ord_then(lex_cmp(a, b, keys, n - 1), dir(key_cmp(a.field(keys[n - 1].0@)->Some_0, b.field(keys[n - 1].0@)->Some_0), keys[n - 1].1)) }
}
pub open spec fn has_keys(d: Doc, keys: Seq<(String, bool)>) -> bool { forall|i: int| 0 <= i < keys.len() ==> d.field((#[trigger] keys[i]).0@) is Some }

//@@ extract file=acts/src/store/db/mem/collect.rs item="fn cmp_value" name=cmp_value
//@@ rw R7 `$A:id . partial_cmp ( & $B:id ) . unwrap_or ( Ordering :: Equal )` => `f64_order($A, $B)`
//@@ spec
    ensures
        //# Q5-one-key-numbers-numerically-else-by-text
        ret == key_cmp(*l, *r),
//@@ end

//@@ extract file=acts/src/store/db/mem/collect.rs in="impl<T> DbCollection for Collect<T>" item="fn query" closure=params:a,b name=Collect::query::order sig="pub fn query_order(a: &Doc, b: &Doc, q: &Query) -> Ordering"
//@@ proof at=start
        proof { reveal_with_fuel(lex_cmp, 2); }
//@@ proof at=loop1
                    proof {
                        let k = q.order_by@[__i1 as int];
                        lemma_key_cmp_swap(a.field(k.0@)->Some_0, b.field(k.0@)->Some_0);
                    }
//@@ spec
    requires has_keys(*a, q.order_by@), has_keys(*b, q.order_by@)
    ensures
        //# Q5-ordered-by-the-requested-keys-each-in-its-direction
        ret == lex_cmp(*a, *b, q.order_by@, q.order_by@.len() as int),
//@@ loop 1
        invariant
            //# Q5-prefix-order
            __v1@ == q.order_by@ && ret == lex_cmp(*a, *b, q.order_by@, __i1 as int) && has_keys(*a, q.order_by@) && has_keys(*b, q.order_by@),
//@@ end
// ---- comparison operators of the in-memory filter (C10: "exactly the records satisfying its AND/OR filter", same answers as SQLite)
pub mod serde_json { pub use super::JsonValue as Value; pub use super::Number; }
//@@ extract file=acts/src/store/query.rs item="enum ExprOp" name=ExprOp
//@@ opt structural
//@@ end
pub struct Expr { pub op: ExprOp }
pub uninterp spec fn json_eq(a: JsonValue, b: JsonValue) -> bool;        // serde_json's PartialEq on values that are not both numbers
impl PartialEq for JsonValue {
    #[verifier::external_body]
    fn eq(&self, other: &Self) -> (r: bool) ensures r == json_eq(*self, *other) { unimplemented!() }
}
// R7: `ord == Some(Ordering::X)` / `ord != Some(Ordering::X)` on Option<Ordering> (derive(PartialEq): structural equality)
#[verifier::external_body]
pub fn ord_is(o: &Option<Ordering>, x: Ordering) -> (r: bool) ensures r == (*o == Some(x)) { unimplemented!() }
// R7: `l == r` / `l != r` on &serde_json::Value
#[verifier::external_body]
pub fn json_same(a: &JsonValue, b: &JsonValue) -> (r: bool) ensures r == json_eq(*a, *b) { unimplemented!() }
pub uninterp spec fn float_ord(a: int, b: int) -> Option<Ordering>;       // f64::partial_cmp on the doubles two numbers convert to
// R7: `a.partial_cmp(&b)` on f64
#[verifier::external_body]
pub fn f64_partial_cmp(a: f64, b: f64) -> (r: Option<Ordering>) ensures r == float_ord(f64_of(a), f64_of(b)) { unimplemented!() }
impl Number {
    #[verifier::external_body]
    pub fn as_u64(&self) -> (r: Option<u64>)
        ensures match self@ { NumV::I(i) => (i >= 0 ==> r == Some(i as u64)) && (i < 0 ==> r is None), NumV::U(u) => r == Some(u as u64) && i64::MAX < u <= u64::MAX, NumV::F(_) => r is None } { unimplemented!() }
    #[verifier::external_body]
    pub fn is_u64(&self) -> (r: bool) ensures r == ((self@ is I && self@->I_0 >= 0) || self@ is U) { unimplemented!() }
}
// oracle: two JSON numbers compare by their numeric value (integers exactly, anything involving a float as doubles)
pub open spec fn num_ord(a: NumV, b: NumV) -> Option<Ordering> {
    match (a, b) {
        (NumV::I(i), NumV::I(j)) => Some(int_cmp(i, j)),
        (NumV::U(i), NumV::U(j)) => Some(int_cmp(i, j)),
        (NumV::I(_), NumV::U(_)) => Some(Ordering::Less),
        (NumV::U(_), NumV::I(_)) => Some(Ordering::Greater),
        _ => float_ord(num_real(a), num_real(b)),
    }
}
pub open spec fn op_holds(op: ExprOp, l: JsonValue, r: JsonValue) -> bool {
    if l is Number && r is Number {
        let o = num_ord(l->Number_0@, r->Number_0@);
        match op {
            ExprOp::EQ => o == Some(Ordering::Equal), ExprOp::NE => o != Some(Ordering::Equal),
            ExprOp::LT => o == Some(Ordering::Less), ExprOp::LE => o == Some(Ordering::Less) || o == Some(Ordering::Equal),
            ExprOp::GT => o == Some(Ordering::Greater), ExprOp::GE => o == Some(Ordering::Greater) || o == Some(Ordering::Equal),
            _ => false,
        }
    } else { match op { ExprOp::EQ => json_eq(l, r), ExprOp::NE => !json_eq(l, r), _ => false } }
}
//@@ extract file=acts/src/store/db/mem/collect.rs item="fn cmp_number" name=cmp_number
//@@ rw R7 `v1 . partial_cmp ( & v2 )` => `f64_partial_cmp(v1, v2)`
//@@ spec
    ensures
        //# Q2-two-numbers-are-ordered-by-their-value
        ret == num_ord(v1@, v2@),
//@@ end
impl Expr {
//@@ extract file=acts/src/store/db/mem/collect.rs in="impl Expr" item="fn op" name=Expr::op
//@@ rw R7 `l != r` => `!json_same(l, r)`
//@@ rw R7 `l == r` => `json_same(l, r)`
//@@ rw R7 `ord == Some ( Ordering :: $V:id )` => `ord_is(&ord, Ordering::$V)`
//@@ rw R7 `ord != Some ( Ordering :: $V:id )` => `!ord_is(&ord, Ordering::$V)`
//@@ spec
    ensures
        //# Q2-a-comparison-holds-iff-it-holds-numerically-for-numbers-and-by-equality-otherwise
        ret == op_holds(self.op, *l, *r),
//@@ end
}
} // verus!
fn main() {}
