"""Replay of violations on the real code.

Verus gives no counterexample.  For obligations that have a registered *replay driver* (units/index.json
`replay` map: obligation-id regex -> driver) the driver is run against a scratch copy of /repo's working tree
with the repository's own toolchain; only if it fails there is the violation reported as replayed.
Otherwise the VIOLATION line ends with `no-failing-input-found` and the replay file carries the failed obligation
and the verifier's output."""
import json
import os
import re
import subprocess
import sys

from . import run as R


def try_replay(prop, o, d, u):
    index = R.unit_index()
    meta = index.get(u.unit, {})
    for pat, drv in meta.get('replay', {}).items():
        if re.search(pat, o.id):
            from . import scratch
            ok, info = scratch.run_replay_driver(drv)
            d['replay_test'] = drv
            d['replay_result'] = info
            if ok is False:      # the driver FAILED on the real code -> failing input demonstrated
                d['replayed'] = True
                d['counterexample'] = info.get('failing_input')
            return
    d['replayed'] = False


def replay_file(path):
    rec = json.load(open(path))
    prop, oid, unit = rec['property'], rec['obligation'], rec['unit']
    index = R.unit_index()
    meta = index.get(unit, {})
    print(f'replaying obligation {oid} (property {prop}, unit {unit}) against /repo')
    if meta.get('engine', 'verus') == 'verus':
        u = R.run_unit(unit, 0, False, meta.get('rlimit'))
    elif meta['engine'] == 'kani':
        from . import kani as K
        u = K.run_unit(unit, meta, 0, 'quick')
    else:
        from . import bounded as B
        u = B.run_unit(unit, meta, 0, 'quick')
    for r in u.undecided:
        print('UNDECIDED:', r)
    if oid in u.failed:
        for dd in u.failed[oid]:
            print(f'obligation still fails: {dd["message"]} at {dd.get("site")}')
            print(dd.get('rendered', ''))
        if rec.get('replay_test') and 'test' in rec['replay_test']:
            from . import scratch
            ok, info = scratch.run_replay_driver(rec['replay_test'])
            print('real-code replay driver', rec['replay_test'], '->', 'FAILS (violation demonstrated)' if ok is False else 'passes', json.dumps(info)[:2000])
        elif hasattr(u, 'replay_violation'):
            dd = dict(u.failed[oid][0])
            u.replay_violation(None, dd)
            print('replay by execution of the extracted code:', dd.get('counterexample'), dd.get('replay_result'))
        print(f'VIOLATION property={prop} replay={path}')
        return 1
    if u.undecided:
        return 2
    print('obligation discharges on the current tree')
    return 0
