"""Kani units: functions cut out of /repo by the same extractor (vx.gen) into one stand-alone Rust file, harnesses from the unit
template appended, `kani <file> --harness H` run per harness (CBMC back end).

Harness conventions (template):
    //# <label> [Cxx,Cyy] complete            -- loop-free / fully unwound harness over the full input domain: counts as proved
    //# <label> [Cxx] bounded: <stated bound>  -- bounded stand-in: reported under coverage.bounded, never counted as discharged
    #[cfg(kani)] #[kani::proof] #[kani::unwind(N)] fn <harness>() { ...; kani::cover!(true); }
Each harness must end in a `kani::cover!(true)` (reachability = vacuity guard: an over-constrained harness reports the cover
UNSATISFIABLE / UNREACHABLE and the unit is UNDECIDED).  Unwinding assertions stay on (Kani default), so a passing harness is
complete for the stated domain.
A `#[cfg(not(kani))] fn main()` in the template enumerates the same domain by execution and prints `REPLAY-FAIL harness=<h> ...`
lines; it is compiled with rustc and run when a harness fails, which gives the failing input on the real (extracted) code.
"""
import concurrent.futures as cf
import hashlib
import json
import os
import re
import subprocess
import time

from .extract import AnchorError
from .gen import generate, Obligation
from .run import UnitRun, ROOT, BUILD, REPO

LABEL_RE = re.compile(r'^\s*//#\s*(\S+)\s*\[([A-Z0-9, ]+)\]\s*(complete|bounded:.*)\s*$')
FN_RE = re.compile(r'^\s*(?:pub\s+)?fn\s+([A-Za-z0-9_]+)\s*\(')


def _cache(path_key):
    return os.path.join(BUILD, 'cache', 'kani_' + path_key + '.json')


def _run_harness(path, text, harness, extra, timeout):
    key = hashlib.sha256((text + '|' + harness + '|' + ' '.join(extra)).encode()).hexdigest()[:24]
    cp = _cache(key)
    if os.environ.get('VERIF_NOCACHE') != '1' and os.path.exists(cp):
        try:
            d = json.load(open(cp))
            d['cached'] = True
            return d
        except Exception:
            pass
    # one private directory per harness: concurrent kani runs on one file clobber each other's artifacts
    import shutil
    wd = os.path.join(BUILD, 'kani', os.path.basename(path)[:-3], f'{harness}.{os.getpid()}')
    shutil.rmtree(wd, ignore_errors=True)
    os.makedirs(wd)
    local = os.path.join(wd, os.path.basename(path))
    shutil.copy(path, local)
    cmd = ['kani', local, '--harness', harness] + list(extra)
    t0 = time.time()
    env = dict(os.environ, CARGO_NET_OFFLINE='true')
    try:
        p = subprocess.run(cmd, capture_output=True, text=True, timeout=timeout, cwd=wd, env=env)
        out = p.stderr + '\n' + p.stdout
        code = p.returncode
    except subprocess.TimeoutExpired:
        out, code = f'kani wall-clock timeout after {timeout}s', -1
    shutil.rmtree(wd, ignore_errors=True)
    d = {'cmd': ' '.join(cmd), 'exit': code, 'wall_s': round(time.time() - t0, 1), 'cached': False}
    d['successful'] = 'VERIFICATION:- SUCCESSFUL' in out
    d['failed'] = 'VERIFICATION:- FAILED' in out
    m = re.search(r'\*\* (\d+) of (\d+) failed', out)
    d['checks'] = int(m.group(2)) if m else 0
    d['checks_failed'] = int(m.group(1)) if m else 0
    m = re.search(r'\*\* (\d+) of (\d+) cover properties satisfied', out)
    d['covers'] = (int(m.group(1)), int(m.group(2))) if m else (0, 0)
    d['failed_checks'] = re.findall(r'Failed Checks: (.*)', out)[:10]
    d['unwind_failed'] = any('unwinding assertion' in f for f in d['failed_checks'])
    mt = re.search(r'Verification Time: ([0-9.]+)s', out)
    d['cbmc_s'] = float(mt.group(1)) if mt else None
    d['tail'] = out[-3000:]
    os.makedirs(os.path.dirname(cp), exist_ok=True)
    try:
        if d['successful'] or d['failed']:      # only definitive outcomes are cached
            json.dump(d, open(cp, 'w'))
    except Exception:
        pass
    return d


def run_unit(unit, meta, seed=0, tier='quick'):
    u = UnitRun(unit)
    u.functions, u.cmds, u.timing, u.bounded = [], [], {}, []
    t0 = time.time()
    tpath = os.path.join(ROOT, 'units', unit, 'unit.rs')
    os.makedirs(BUILD, exist_ok=True)
    try:
        g = generate(unit, tpath, REPO)
    except AnchorError as e:
        u.undecided.append(f'lost anchor: {e}')
        u.wall_s = time.time() - t0
        return u
    except Exception as e:
        u.undecided.append(f'extraction failed: {type(e).__name__}: {e}')
        u.wall_s = time.time() - t0
        return u
    u.g = g
    gpath = os.path.join(BUILD, f'{unit.replace("-", "_")}.rs')
    from .run import _atomic_write
    _atomic_write(gpath, g.text)
    # harness table
    lines = g.text.split('\n')
    harnesses = []   # (fn, label, props, mode, gen_line)
    for i, ln in enumerate(lines):
        m = LABEL_RE.match(ln)
        if not m:
            continue
        for j in range(i + 1, min(i + 8, len(lines))):
            mf = FN_RE.match(lines[j])
            if mf:
                harnesses.append((mf.group(1), m.group(1), set(x.strip() for x in m.group(2).split(',')), m.group(3).strip(), j + 1))
                break
    if not harnesses:
        u.undecided.append('no Kani harness found in the unit (vacuous)')
    extra = meta.get('kani_args', [])
    timeout = meta.get('timeout_s', 900)
    results = {}
    with cf.ThreadPoolExecutor(max_workers=meta.get('jobs', 6)) as ex:
        futs = {h[0]: ex.submit(_run_harness, gpath, g.text, h[0], extra, timeout) for h in harnesses}
        for k, f in futs.items():
            results[k] = f.result()
    obs = []
    for fn, label, props, mode, gl in harnesses:
        r = results[fn]
        u.cmds.append(r['cmd'])
        u.timing[fn] = {'wall_s': r['wall_s'], 'cbmc_s': r['cbmc_s'], 'checks': r['checks'], 'cached': r['cached']}
        oid = f'{unit}::{fn}::kani:{label}'
        o = Obligation(oid, 'kani-harness' if mode == 'complete' else 'kani-bounded', fn, props, f'{label} ({mode})')
        vac = r['covers'][1] == 0 or r['covers'][0] < r['covers'][1]
        if r['failed'] and not r['unwind_failed'] and r['checks_failed'] > 0:
            u.failed[oid] = [{'message': 'Kani: ' + '; '.join(r['failed_checks'])[:400], 'site': None, 'rendered': r['tail'], 'harness': fn}]
            obs.append(o)
        elif r['successful'] and not vac:
            if mode == 'complete':
                obs.append(o)
            else:
                u.bounded.append({'unit': unit, 'harness': fn, 'label': label, 'bound': mode, 'passed': True, 'properties': sorted(props)})
        else:
            why = 'cover not reached (vacuous harness)' if (r['successful'] and vac) else ('unwinding assertion failed (bound too small)' if r['unwind_failed'] else 'kani did not finish: ' + r['tail'][-300:].replace('\n', ' | '))
            u.undecided.append(f'harness {fn}: {why}')
            u.invalid = True
            obs.append(o)
    u.obligations = obs
    # functions under harness (evidence)
    for n in g.order:
        fi = g.fns[n]
        if fi.slice is not None:
            rec = fi.slice.report()
            rec['function'] = n
            rec['rewrites'] = {k: v for k, v in fi.rewrites.items() if v}
            u.functions.append(rec)
    u.trusted = ['[kani] machine integers are bit-precise; heap/strings as modelled by CBMC; `kani::any()` ranges as assumed in each harness']
    u.wall_s = time.time() - t0

    def replay_violation(o, d, _u=u, _gpath=gpath):
        exe = _gpath[:-3] + '.replay.bin'
        c = subprocess.run(['rustc', '--edition', '2021', '-O', '-A', 'warnings', '--cfg', 'verif_replay', _gpath, '-o', exe], capture_output=True, text=True)
        if c.returncode != 0:
            d['replayed'] = False
            d['replay_result'] = {'error': 'rustc failed: ' + c.stderr[-500:]}
            return
        p = subprocess.run([exe], capture_output=True, text=True, timeout=600)
        fails = [ln for ln in p.stdout.split('\n') if ln.startswith('REPLAY-FAIL') and f'harness={d.get("harness")}' in ln]
        d['replayed'] = bool(fails)
        d['counterexample'] = fails[:10]
        d['replay_test'] = {'cmd': f'rustc --edition 2021 -O {_gpath} -o {exe} && {exe}'}
        d['replay_result'] = {'exit': p.returncode, 'fail_lines': len(fails)}
        try:
            os.remove(exe)
        except OSError:
            pass
    u.replay_violation = replay_violation
    return u
