"""Census guard of C02 ("every task-state write"): every call of Task/Process::set_state / set_err / set_pure_state / set_pure_err in the
non-test sources of acts/src must lie inside a function that is under contract in one of the property's units (then it is a call-site
obligation of the setter's precondition) or be on the allow-list below (each entry says why it is not a lifecycle step of a live task).
A call site anywhere else means the proof no longer covers "every state write": the check answers UNDECIDED for that site and the bounded
drivers decide -- never an alarm by itself."""
import os
import re

from .lexer import norm

REPO = os.environ.get('VERIF_REPO', '/repo')
PAT = re.compile(r'\b(set_state|set_pure_state|set_err|set_pure_err)\s*\(')
# (file, normalised source line) -> reason
ALLOW = {
    ('acts/src/scheduler/process/process.rs', 'task.set_err(&err.into());'): 'Process::do_task: the same failure handler as Scheduler::next (under contract as exec_failed in U-run); do_task is not called by the engine',
    ('acts/src/scheduler/process/process.rs', 'self.set_state(TaskState::Running);'): 'Process::start: the PROCESS goes None -> Running before its root task exists (not a task state write)',
    ('acts/src/cache/cache.rs', 'proc.set_pure_state(p.state());'): 'Cache::push_task_pri: copies the live process state into the cached process object (under contract in U-persist)',
    ('acts/src/cache/store.rs', 'proc.set_pure_state(state.into());'): 'Store::load: state of a freshly rebuilt process object (under contract in U-load)',
    ('acts/src/cache/store.rs', 'proc.set_pure_err(&err)'): 'Store::load / load_proc: error of a freshly rebuilt process object (U-load)',
    ('acts/src/cache/store.rs', 'proc.set_pure_state(p.state.into());'): 'Store::load_proc: state of a freshly rebuilt process object (U-load)',
    ('acts/src/cache/store.rs', 'task.set_pure_state(state.clone());'): 'Store::load_tasks: state of a freshly rebuilt task object (U-load)',
    ('acts/src/cache/store.rs', 'task.set_pure_err(&err)'): 'Store::load_tasks: error of a freshly rebuilt task object (U-load)',
}


def scan(runs):
    """-> (n_sites, n_under_contract, [uncovered site descriptions])"""
    slices = {}
    for u in runs:
        g = getattr(u, 'g', None)
        if g is not None:
            for sl in g.slices:
                slices.setdefault(sl.path, []).append((sl.start, sl.end))
    total = covered = 0
    bad = []
    root = os.path.join(REPO, 'acts', 'src')
    for dp, _, fns in sorted(os.walk(root)):
        for fn in sorted(fns):
            if not fn.endswith('.rs'):
                continue
            full = os.path.join(dp, fn)
            rel = os.path.relpath(full, REPO)
            if '/tests/' in rel or rel.endswith('/tests.rs') or rel.endswith('/test.rs'):
                continue
            text = open(full).read()
            cut = text.find('#[cfg(test)]\nmod ')
            body = text if cut < 0 else text[:cut]
            for m in PAT.finditer(body):
                ls = body.rfind('\n', 0, m.start()) + 1
                le = body.find('\n', m.start())
                line = body[ls:le if le >= 0 else len(body)]
                if re.search(r'\bfn\s+' + m.group(1) + r'\b', line) or line.strip().startswith('//'):
                    continue
                total += 1
                if any(a <= m.start() < b for a, b in slices.get(rel, [])):
                    covered += 1
                    continue
                if (rel, norm(line)) in ALLOW or (rel, line.strip()) in ALLOW:
                    continue
                bad.append(f'{rel}:{body.count(chr(10), 0, m.start()) + 1}: `{line.strip()[:100]}`')
    return total, covered, bad
