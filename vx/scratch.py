"""Scratch copies of /repo's working tree (outside /repo and /verif), removed after use.
Build output goes to a persistent cache dir under /verif/.cache so warm runs are fast."""
import json
import os
import shutil
import subprocess
import time

from . import run as R

SCRATCH_BASE = '/tmp/acts-verif-scratch'
CACHE = os.path.join(R.ROOT, '.cache')


def make_scratch(purpose):
    d = f'{SCRATCH_BASE}-{purpose}'
    if os.path.exists(d):
        shutil.rmtree(d)
    os.makedirs(d)
    subprocess.run(['rsync', '-a', '--exclude', '/target', '--exclude', '/.git', '--exclude', 'test_data', R.REPO + '/', d + '/'], check=True)
    return d


def drop_scratch(d):
    shutil.rmtree(d, ignore_errors=True)


def cargo_env(purpose):
    env = dict(os.environ)
    env['CARGO_NET_OFFLINE'] = 'true'
    env['CARGO_TARGET_DIR'] = os.path.join(CACHE, f'target-{purpose}')
    return env


def run_replay_driver(drv, keep=False):
    """drv: {crate, append: {repo_file: verif_file}, test, timeout}.  Returns (passed: bool|None, info)."""
    # one driver at a time across all check processes: the scratch path is fixed (a warm cargo build needs the same path)
    import fcntl
    lock = open(SCRATCH_BASE + '.lock', 'w')
    fcntl.flock(lock, fcntl.LOCK_EX)
    d = make_scratch('replay')
    try:
        for dst, srcf in drv.get('append', {}).items():
            with open(os.path.join(d, dst), 'a') as f:
                f.write('\n' + open(os.path.join(R.ROOT, srcf)).read())
        cmd = ['cargo', 'test', '--offline', '-p', drv['crate'], drv['test'], '--', '--nocapture', '--test-threads', '1']
        t0 = time.time()
        p = subprocess.run(cmd, cwd=d, env=cargo_env('replay'), capture_output=True, text=True, timeout=drv.get('timeout', 1500))
        out = p.stdout + p.stderr
        info = {'cmd': ' '.join(cmd), 'exit': p.returncode, 'wall_s': round(time.time() - t0, 1), 'tail': out[-3000:]}
        fails = [l for l in out.splitlines() if 'REPLAY-FAIL' in l]
        if fails:
            info['failing_input'] = fails[:20]
        if 'test result: ok' in out and p.returncode == 0:
            return True, info
        if 'test result: FAILED' in out:
            return False, info
        return None, info
    finally:
        if not keep:
            drop_scratch(d)
        try:
            fcntl.flock(lock, fcntl.LOCK_UN)
            lock.close()
        except Exception:
            pass
