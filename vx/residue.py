"""Residue guard: which code that a property depends on lies OUTSIDE every function under contract, and did it change?

A contract only notices a change inside the function it is attached to.  For every property the anchor files named in
properties.jsonl (plus every file a unit of the property extracts from) are tokenised, the byte ranges of the slices under contract
are cut out, comments and whitespace are dropped, and the remaining token stream is hashed.  baseline/residue.json holds the
hashes of the pinned tree.  When a hash differs, code the property depends on was edited where no obligation can see it: the check
then also runs the property's bounded real-code drivers (labelled bounded), exactly as it does for an UNDECIDED unit.  On the
unchanged tree nothing differs and nothing extra runs.  The guard never raises an alarm by itself."""
import hashlib
import json
import os
import re

from .lexer import lex, sig

ROOT = os.path.dirname(os.path.dirname(os.path.abspath(__file__)))
REPO = os.environ.get('VERIF_REPO', '/repo')
BASE = os.path.join(ROOT, 'baseline', 'residue.json')


# properties whose statement is about the whole engine state ("whenever quiescent the store holds a complete image", "continuing after a reload
# produces the same messages"): every file that mutates tasks or builds messages counts as code they depend on, not only the anchors
EXTRA = {
    'C11': ['acts/src/scheduler/process', 'acts/src/scheduler/context.rs', 'acts/src/scheduler/runtime.rs', 'acts/src/package/core'],
    'C12': ['acts/src/scheduler/process', 'acts/src/scheduler/context.rs', 'acts/src/scheduler/runtime.rs', 'acts/src/package/core', 'acts/src/cache'],
    'C13': ['acts/src/cache', 'acts/src/scheduler/runtime.rs', 'acts/src/export/executor/process_executor.rs'],
    # "is seen by every later condition, script and message": the script environment is where conditions, templates and scripts read names
    'C07': ['acts/src/env'],
    # "a value returned or set by a script is stored unchanged": the variable container converts what scripts hand back
    'C14': ['acts/src/model/vars.rs', 'acts/src/package/transform'],
}


def _anchor_files(prop):
    files = []
    for a in EXTRA.get(prop, []):
        full = os.path.join(REPO, a)
        if os.path.isdir(full):
            for dp, _, fns in sorted(os.walk(full)):
                for fn in sorted(fns):
                    if fn.endswith('.rs') and '/tests' not in dp and fn not in ('tests.rs',):
                        files.append(os.path.relpath(os.path.join(dp, fn), REPO))
        elif os.path.exists(full):
            files.append(a)
    with open(os.path.join(ROOT, 'properties.jsonl')) as f:
        for ln in f:
            p = json.loads(ln)
            if p['id'] != prop:
                continue
            for a in p.get('anchors', {}).get('files', []):
                full = os.path.join(REPO, a)
                if os.path.isdir(full):
                    for dp, _, fns in sorted(os.walk(full)):
                        for fn in sorted(fns):
                            if fn.endswith('.rs'):
                                files.append(os.path.relpath(os.path.join(dp, fn), REPO))
                else:
                    files.append(a)
            # files named only in the `where` of a mechanism (e.g. acts/src/scheduler/scheduler.rs for C13) count as well
            for m in p.get('anchors', {}).get('mechanism', []):
                for w in re.findall(r'[\w/.-]+\.rs', m.get('where', '')):
                    if os.path.exists(os.path.join(REPO, w)):
                        files.append(w)
    return files


def _slices_of(runs):
    per = {}
    for u in runs:
        g = getattr(u, 'g', None)
        if g is not None:
            for sl in g.slices:
                per.setdefault(sl.path, []).append((sl.start, sl.end))
        for rec in getattr(u, 'functions', []) or []:
            if rec.get('file') and rec.get('bytes'):
                per.setdefault(rec['file'], []).append(tuple(rec['bytes']))
    return per


def hashes(prop, runs):
    per = _slices_of(runs)
    out = {}
    for path in sorted(set(_anchor_files(prop)) | set(per)):
        full = os.path.join(REPO, path)
        if not os.path.exists(full):
            out[path] = 'missing'
            continue
        text = open(full).read()
        try:
            toks = sig(lex(text))
        except Exception as e:   # a file the tokeniser cannot read counts as changed
            out[path] = 'unlexable: ' + str(e)[:60]
            continue
        rs = sorted(per.get(path, []))
        h = hashlib.sha256()
        n = 0
        for t in toks:
            if any(a <= t.start < b for a, b in rs):
                continue
            h.update(t.text.encode())
            h.update(b'\x1f')
            n += 1
        out[path] = f'{h.hexdigest()[:32]}:{n}'
    return out


def changed(prop, runs):
    """-> (list of files whose residue differs from the baseline, current hashes)"""
    cur = hashes(prop, runs)
    base = {}
    if os.path.exists(BASE):
        base = json.load(open(BASE)).get(prop, {})
    if not base:
        return [], cur
    diff = sorted(f for f in set(cur) | set(base) if cur.get(f) != base.get(f))
    return diff, cur


def rebaseline(prop, runs):
    base = {}
    if os.path.exists(BASE):
        base = json.load(open(BASE))
    base[prop] = hashes(prop, runs)
    with open(BASE, 'w') as f:
        json.dump(base, f, indent=1, sort_keys=True)
    return base[prop]
