"""Orchestration: units -> obligations -> classification -> evidence -> exit code."""
import hashlib
import json
import os
import re
import sys
import time
import concurrent.futures as cf

from .extract import AnchorError
from .gen import generate, Obligation
from .verus import run_verus, map_failures
from .lexer import norm

ROOT = os.path.dirname(os.path.dirname(os.path.abspath(__file__)))
BUILD = os.path.join(ROOT, 'build')
REPO = os.environ.get('VERIF_REPO', '/repo')

TRUST_RE = re.compile(r'(#\[verifier::external_body\]|#\[verifier::external[^\]]*\]|assume_specification|\buninterp\b|\bassume\s*\(|\badmit\s*\(|#\[verifier::exec_allows_no_decreases_clause\]|#\[verifier::loop_isolation\(false\)\]|#\[verifier::rlimit)')


def load_json(path, default=None):
    if os.path.exists(path):
        with open(path) as f:
            return json.load(f)
    return default


def unit_index():
    return load_json(os.path.join(ROOT, 'units', 'index.json'), {})


def scan_trusted(g):
    """mechanical scan of the generated file for assumptions; extracted bodies must not contain assume/admit."""
    out = []
    forbidden = []
    for i, ln in enumerate(g.lines):
        for m in TRUST_RE.finditer(ln):
            kind = m.group(1)
            origin = g.origin[i]
            # name of the item that follows
            ctx = ''
            for j in range(i, min(i + 6, len(g.lines))):
                mm = re.search(r'\b(fn|struct|enum|type|spec fn|proof fn)\s+([A-Za-z_][A-Za-z0-9_]*)', g.lines[j])
                if mm:
                    ctx = mm.group(0)
                    break
            note = ''
            for j in range(i - 1, max(i - 4, -1), -1):
                mm = re.search(r'//\s*(TRUSTED|ASSUMED)\s*:?\s*(.*)', g.lines[j])
                if mm:
                    note = mm.group(2).strip()
                    break
            out.append(f'{kind.strip()} {ctx}' + (f' -- {note}' if note else ''))
            if origin[0] == 'repo' and ('assume' in kind or 'admit' in kind):
                forbidden.append(f'line {i+1}: {kind} inside extracted text')
    return sorted(set(out)), forbidden


class UnitRun:
    def __init__(self, unit):
        self.unit = unit
        self.g = None
        self.res = None
        self.failed = {}
        self.unmapped = []
        self.undecided = []       # reasons
        self.canary = None        # dict(generated, failed_as_required, passing=[...])
        self.trusted = []
        self.wall_s = 0.0
        self.obligations = []
        self.invalid = False      # the verifier did not run to completion on this unit: nothing counts as discharged

    def all_obligations(self):
        return [o for n in self.g.order for o in self.g.fns[n].obligations]


def _cache_key(text, seed, extra=''):
    h = hashlib.sha256()
    h.update(text.encode())
    h.update(str(seed).encode())
    h.update(extra.encode())
    return h.hexdigest()[:24]


def _retry_isolated(path, r, seed, rlimit, regions):
    """A function that ran out of solver resources in the whole-file run is re-checked on its own
    (`--verify-function`: Verus then prunes the SMT context to what that function uses) with a larger budget and up to
    three seeds.  A retry that finishes replaces the rlimit diagnostic: verified -> nothing left, failed -> its
    verification errors are merged into the result.  Never turns a failure into a pass: only `rlimit` is retried."""
    r.retries = []
    if not r.rlimit or r.tool_errors:
        return
    names = set()
    for rl in r.rlimit:
        if not rl['spans'] or not rl['spans'][0][0]:
            return
        line = rl['spans'][0][0]
        best = None
        for reg in regions:
            if reg[1] <= line <= reg[2] and (best is None or reg[1] >= best[1]):
                best = reg
        if best is None:
            return
        names.add(best[0])
    cands = sorted(k for k, v in r.func_stats.items() if v.get('success') is False and k.split('::')[-1] in names)
    if not cands or len(cands) > 6:
        return
    merged, all_done = [], True
    for k in cands:
        arg = '::'.join(k.split('::')[-2:])
        done = False
        for s in (seed, seed + 1, seed + 2):
            rr = run_verus(path, seed=s, rlimit=(rlimit or 10) * 4, extra=['--verify-root', '--verify-function', arg])
            r.retries.append({'function': k, 'seed': s, 'rlimit': (rlimit or 10) * 4, 'verified': rr.verified, 'errors': rr.error_count,
                              'rlimit_hit': bool(rr.rlimit), 'tool_errors': len(rr.tool_errors), 'wall_s': round(rr.wall_s, 1)})
            if not rr.tool_errors and not rr.rlimit and (rr.verified + rr.error_count) > 0:
                merged.extend(rr.errors)
                done = True
                break
        all_done = all_done and done
    if all_done:
        r.rlimit = []
        seen = set((e['message'], tuple(map(tuple, e['spans']))) for e in r.errors)
        for e in merged:
            key = (e['message'], tuple(map(tuple, e['spans'])))
            if key not in seen:
                r.errors.append(e)
                seen.add(key)
        if r.exit not in (0, 1):
            r.exit = 1 if r.errors else 0
        r.exit = 1 if r.errors else 0


def _run_verus_cached(path, text, seed, rlimit, tag, regions=None):
    os.makedirs(os.path.join(BUILD, 'cache'), exist_ok=True)
    key = _cache_key(text, seed, f'{rlimit}|{tag}')
    cpath = os.path.join(BUILD, 'cache', key + '.json')
    if os.environ.get('VERIF_NOCACHE') != '1' and os.path.exists(cpath):
        try:
            d = json.load(open(cpath))
            from .verus import VerusResult
            r = VerusResult()
            r.__dict__.update(d)
            r.errors = [dict(e, spans=[tuple(s) for s in e['spans']]) for e in r.errors]
            r.cached = True
            return r
        except Exception:
            pass
    r = run_verus(path, seed=seed, rlimit=rlimit, multiple_errors=(1 if tag == 'canary' else 20))
    r.cached = False
    if tag == 'main' and regions is not None:
        _retry_isolated(path, r, seed, rlimit, regions)
    try:
        json.dump(r.__dict__, open(cpath, 'w'))
    except Exception:
        pass
    return r


def _atomic_write(path, text):
    """several check processes may generate the same unit at once (same /repo -> same text): never expose a half-written file"""
    tmp = f'{path}.tmp.{os.getpid()}'
    with open(tmp, 'w') as f:
        f.write(text)
    os.replace(tmp, path)


def run_unit(unit, seed=0, canary=True, rlimit=None):
    """generate + verify one Verus unit (plus its canary twin)."""
    u = UnitRun(unit)
    t0 = time.time()
    tpath = os.path.join(ROOT, 'units', unit, 'unit.rs')
    os.makedirs(BUILD, exist_ok=True)
    try:
        g = generate(unit, tpath, REPO)
    except AnchorError as e:
        u.undecided.append(f'lost anchor: {e}')
        u.wall_s = time.time() - t0
        return u
    except Exception as e:  # tokeniser trouble etc. is a tooling failure, never an alarm
        u.undecided.append(f'extraction failed: {type(e).__name__}: {e}')
        u.wall_s = time.time() - t0
        return u
    u.g = g
    gpath = os.path.join(BUILD, f'{unit}.rs')
    _atomic_write(gpath, g.text)
    u.trusted, forbidden = scan_trusted(g)
    for fb in forbidden:
        u.undecided.append('forbidden construct: ' + fb)
    jobs = {}
    with cf.ThreadPoolExecutor(max_workers=2) as ex:
        jobs['main'] = ex.submit(_run_verus_cached, gpath, g.text, seed, rlimit, 'main', g.all_fn_regions)
        if canary:
            try:
                gc = generate(unit, tpath, REPO, canary=True)
                cpath = os.path.join(BUILD, f'{unit}__canary.rs')
                _atomic_write(cpath, gc.text)
                jobs['canary'] = ex.submit(_run_verus_cached, cpath, gc.text, seed, rlimit, 'canary')
            except Exception as e:
                u.undecided.append(f'canary generation failed: {e}')
        res = jobs['main'].result()
        cres = jobs['canary'].result() if 'canary' in jobs else None
    u.res = res
    if res.tool_errors or res.exit not in (0, 1) or res.rlimit:
        u.invalid = True
    if res.tool_errors:
        for te in res.tool_errors[:5]:
            loc = ''
            if te['spans']:
                loc = ' at ' + g.repo_loc(te['spans'][0][0]) + f' (generated line {te["spans"][0][0]})'
            u.undecided.append('verus rejected the generated unit: ' + te['message'][:300] + loc)
    for rl in res.rlimit:
        loc = g.repo_loc(rl['spans'][0][0]) if rl['spans'] else ''
        u.undecided.append(f'resource limit: {rl["message"][:200]} {loc}')
    u.failed, u.unmapped = map_failures(g, res)
    for d in u.unmapped:
        u.undecided.append('verification failure outside any extracted function (prelude lemma?): ' + d['message'][:200]
                           + (f' (generated line {d["spans"][0][0]})' if d['spans'] else ''))
    if not res.tool_errors and res.verified == 0 and res.error_count == 0:
        u.undecided.append('verus verified nothing (vacuous run)')
    # canary
    if cres is not None:
        cfailed, _ = map_failures(gc, cres)
        need = [n for n in gc.order if gc.fns[n].is_fn and gc.fns[n].slice and '{' in gc.fns[n].slice.text]
        ok, bad = [], []
        for n in need:
            hit = any(k.startswith(f'{unit}::{n}::') for k in cfailed)
            (ok if hit else bad).append(n)
        u.canary = {'generated': len(need), 'failed_as_required': len(ok), 'passing': bad}
        if cres.tool_errors:
            u.undecided.append('canary twin rejected by verus: ' + cres.tool_errors[0]['message'][:200])
        elif bad:
            u.undecided.append('vacuity: `ensures false` verified for ' + ', '.join(bad))
    u.obligations = u.all_obligations()
    # loop-shape guard: loop contracts are attached by loop ordinal; when the number of loops of a function differs from the pinned tree
    # (a loop added, removed, or an iterator chain lowered into / out of a loop) the ordinals cannot be trusted any more: the function is
    # UNDECIDED (its failures are not reported as violations; the bounded drivers decide), never an alarm by itself
    base_loops = load_json(os.path.join(ROOT, 'baseline', 'loops.json'), {}).get(unit, {})
    u.loop_changed = set()
    for n in g.order:
        fi = g.fns[n]
        if fi.is_fn and n in base_loops and base_loops[n] != getattr(fi, 'n_loops', 0):
            u.loop_changed.add(n)
            u.undecided.append(f'{n}: loop structure changed ({base_loops[n]} loop(s) on the pinned tree, {fi.n_loops} now): loop contracts are attached by ordinal and cannot be trusted')
    # a contract part whose anchor (the k-th loop, the k-th call of a callee) is gone could not be spliced: that function is UNDECIDED in the
    # same way (failures of it are not violations); every other function of the unit is generated and checked as usual
    for n in g.order:
        fi = g.fns[n]
        if getattr(fi, 'lost_anchors', None):
            u.loop_changed.add(n)
            u.undecided.append(f'lost anchor: {n}: ' + '; '.join(fi.lost_anchors[:3]))
    u.wall_s = time.time() - t0
    return u


def loops_of(u):
    return {n: getattr(u.g.fns[n], 'n_loops', 0) for n in u.g.order if u.g.fns[n].is_fn} if u.g is not None else {}


# ------------------------------------------------------------------------------------------------

def site_signature(g, site):
    """line-number free signature of a failure site: file + normalised source line text"""
    if not site:
        return 'nosite'
    m = re.match(r'^(.*):(\d+)$', site)
    if not m:
        return site
    path, line = m.group(1), int(m.group(2))
    try:
        with open(os.path.join(REPO, path)) as f:
            lines = f.read().split('\n')
        return f'{path}::{norm(lines[line-1])}'
    except Exception:
        return site


def classify(unit_runs, prop, baseline, known, all_known=None):
    """-> dict(obligations, discharged, violations[], known[], undecided[], failed_known_ids)"""
    out = {'obligations': [], 'discharged': [], 'violations': [], 'known': [], 'undecided': [], 'unbaselined': []}
    for u in unit_runs:
        for r in u.undecided:
            out['undecided'].append(f'{u.unit}: {r}')
        if u.g is None:
            continue
        obs = [o for o in u.obligations if prop in o.props]
        ids = set(o.id for o in obs)
        base_ids = set(i for i in baseline.get(u.unit, []) if True)
        # lost obligations: baseline ids tagged for this unit that were not generated
        for bid, bprops in baseline.get(u.unit, {}).items() if isinstance(baseline.get(u.unit), dict) else []:
            if prop in bprops and bid not in ids and not any(k['obligation'] == bid for k in known):
                out['undecided'].append(f'{u.unit}: baseline obligation {bid} was not generated (lost anchor / contract edited)')
        # functions with a failure that is NOT a listed open known finding (of any property): their other clauses are not counted.
        # A function whose only failing clauses are listed known findings keeps its other clauses (Verus reports each failing
        # clause separately under --multiple-errors and checks the remaining ones).
        failed_fns = set()
        open_known = [k for k in (all_known if all_known is not None else known) if k.get('status', 'open') == 'open']
        for oid, diags in u.failed.items():
            ks = [k for k in open_known if k['obligation'] == oid]
            if ks and all(any((not k.get('sites')) or site_signature(u.g, d.get('site')) in k['sites'] for k in ks) for d in diags):
                continue
            failed_fns.add(oid.rsplit('::', 1)[0])
        collateral = {}
        for o in obs:
            out['obligations'].append(o)
            fkey = o.id.rsplit('::', 1)[0]
            if o.id in u.failed and fkey.split('::', 1)[-1] in getattr(u, 'loop_changed', ()):
                continue      # already reported as UNDECIDED (loop structure changed)
            if o.id in u.failed:
                diags = u.failed[o.id]
                kn = [k for k in known if k['obligation'] == o.id and k.get('status', 'open') == 'open']
                for d in diags:
                    sigs = site_signature(u.g, d.get('site'))
                    matched = None
                    for k in kn:
                        if not k.get('sites') or sigs in k['sites']:
                            matched = k
                    if matched:
                        out['known'].append((o, d, matched))
                    elif isinstance(baseline.get(u.unit), dict) and o.id in baseline[u.unit]:
                        out['violations'].append((o, d, u))
                    elif kn:
                        # known obligation failing at a NEW site
                        out['violations'].append((o, d, u))
                    else:
                        out['unbaselined'].append((o, d, u))
            elif u.invalid or fkey in failed_fns:
                # function has failures: clauses not mentioned are NOT counted as discharged
                if not u.invalid and isinstance(baseline.get(u.unit), dict) and o.id in baseline[u.unit]:
                    collateral.setdefault(fkey, []).append(o)
            else:
                out['discharged'].append(o)
        # a function with failing clauses none of which is tagged with THIS property: its clauses that carry the property discharged
        # on the pinned tree and are no longer discharged (Verus proves a function as a whole).  Reported once per function, with the
        # failing clauses of the function as the reason -- otherwise a change that breaks the proof of a function through a clause
        # tagged with another property would leave this property's check silent (found with seed C11-update-data-last-scope-only).
        direct = set(o.id.rsplit('::', 1)[0] for o, _, _ in out['violations']) | set(o.id.rsplit('::', 1)[0] for o, _, _ in out['known'])
        for fkey, os_ in collateral.items():
            if fkey in direct or fkey.split('::', 1)[-1] in getattr(u, 'loop_changed', ()):
                continue
            why = [(oid, d) for oid, ds in u.failed.items() if oid.rsplit('::', 1)[0] == fkey for d in ds]
            d0 = dict(why[0][1]) if why else {'message': 'function not verified', 'site': None}
            d0['message'] = (f'no longer discharged ({len(os_)} obligation(s) of this property in {fkey.split("::", 1)[-1]}): the function fails '
                             + '; '.join(f'{oid.rsplit("::", 1)[-1]}: {d["message"]} at {d.get("site")}' for oid, d in why[:4]))
            d0['rendered'] = '\n'.join(d.get('rendered') or '' for _, d in why[:4])
            out['violations'].append((os_[0], d0, u))
    return out
