"""Item location and slicing for vx.

Items are named by path, never by line:  container headers (normalised token
strings such as `impl ActTask for Step`, `mod tests`) and an item designator
(`fn review`, `enum TaskState`, `struct Proc`, `impl From<TaskState> for String`,
`const NAME`, `type NAME`, `macro NAME`).
"""
import hashlib
from .lexer import lex, sig, match_close, norm, OPEN, CLOSE


class AnchorError(Exception):
    """lost anchor: item not found / found twice / unsupported shape -> UNDECIDED (exit 2)"""


ITEM_KW = {'fn', 'struct', 'enum', 'impl', 'const', 'static', 'type', 'trait', 'mod', 'use', 'macro_rules', 'union', 'extern'}
QUAL = {'pub', 'async', 'unsafe', 'default'}


class Item:
    def __init__(self, kind, name, st, a, b, body_open):
        self.kind, self.name = kind, name      # kind: keyword; name: identifier or normalised header
        self.st, self.a, self.b = st, a, b      # sig-token index range [a, b] inclusive
        self.body_open = body_open              # sig index of the body '{' or None
        self.start = st[a].start
        self.end = st[b].end

    def __repr__(self):
        return f'<{self.kind} {self.name}>'


def _skip_angle(st, i):
    """st[i] is '<' ; return index after matching '>' (handles '->' and nested brackets)."""
    depth = 0
    while i < len(st):
        t = st[i]
        if t.kind == 'p':
            if t.text in OPEN:
                i = match_close(st, i)
            elif t.text == '<':
                depth += 1
            elif t.text == '>':
                if st[i - 1].kind == 'p' and st[i - 1].text == '-' and st[i - 1].end == t.start:
                    pass
                else:
                    depth -= 1
                    if depth == 0:
                        return i + 1
        i += 1
    raise AnchorError('unbalanced <>')


def scan_items(st, lo, hi):
    """yield the items whose tokens lie in st[lo:hi] (one nesting level)."""
    i = lo
    items = []
    while i < hi:
        a = i
        # attributes
        while i < hi and st[i].text == '#' and st[i].kind == 'p':
            j = i + 1
            if st[j].text == '!':
                j += 1
            if st[j].text != '[':
                break
            i = match_close(st, j) + 1
        # qualifiers
        while i < hi:
            t = st[i]
            if t.kind == 'id' and t.text in QUAL:
                i += 1
                if st[i - 1].text == 'pub' and i < hi and st[i].text == '(':
                    i = match_close(st, i) + 1
                continue
            if t.kind == 'id' and t.text == 'const' and st[i + 1].kind == 'id' and st[i + 1].text in ('fn', 'unsafe', 'async', 'extern'):
                i += 1
                continue
            if t.kind == 'id' and t.text == 'extern' and st[i + 1].kind == 'str':
                i += 2
                continue
            break
        if i >= hi:
            break
        kw = st[i]
        if kw.kind != 'id' or kw.text not in ITEM_KW:
            # stray token (e.g. a macro invocation at item level): skip to next ';' or balanced group
            j = i
            while j < hi and not (st[j].kind == 'p' and st[j].text in (';',)):
                if st[j].kind == 'p' and st[j].text in OPEN:
                    j = match_close(st, j)
                    if st[j].text == '}':
                        break
                j += 1
            i = j + 1
            continue
        k = kw.text
        body_open = None
        if k in ('const', 'static', 'type', 'use'):
            j = i + 1
            while not (st[j].kind == 'p' and st[j].text == ';'):
                if st[j].kind == 'p' and st[j].text in OPEN:
                    j = match_close(st, j)
                j += 1
            name = st[i + 1].text if k != 'use' else norm(''.join(t.text + ' ' for t in st[i + 1:j]))
            if k in ('const', 'static') and name == 'mut':
                name = st[i + 2].text
            items.append(Item(k, name, st, a, j, None))
            i = j + 1
            continue
        if k == 'macro_rules':
            # macro_rules ! name { ... }
            name = st[i + 2].text
            j = i + 3
            j = match_close(st, j)
            if j + 1 < hi and st[j + 1].text == ';':
                j += 1
            items.append(Item('macro', name, st, a, j, i + 3))
            i = j + 1
            continue
        # fn / struct / enum / impl / trait / mod / union
        j = i + 1
        while True:
            t = st[j]
            if t.kind == 'p' and t.text == '<' and k != 'fn_done':
                j = _skip_angle(st, j)
                continue
            if t.kind == 'p' and t.text == '{':
                body_open = j
                j = match_close(st, j)
                break
            if t.kind == 'p' and t.text == ';':
                break
            if t.kind == 'p' and t.text in OPEN:
                j = match_close(st, j) + 1
                continue
            j += 1
        if k == 'impl' or k == 'extern':
            hdr_end = body_open if body_open is not None else j
            name = ' '.join(t.text for t in st[i:hdr_end])
        else:
            name = st[i + 1].text
        items.append(Item(k, name, st, a, j, body_open))
        i = j + 1
    return items


class Source:
    def __init__(self, path, text):
        self.path, self.text = path, text
        self.toks = lex(text)
        self.st = sig(self.toks)

    def top_items(self):
        return scan_items(self.st, 0, len(self.st))

    def children(self, item):
        if item.body_open is None:
            return []
        return scan_items(self.st, item.body_open + 1, item.b)

    def find(self, containers, designator):
        """containers: list of normalised headers ('impl X for Y', 'mod tests'); designator: 'fn name' etc."""
        level = self.top_items()
        for c in containers:
            cn = norm(c)
            ckind = cn.split(' ', 1)[0]
            hits = []
            for it in level:
                if ckind == 'impl' and it.kind == 'impl' and (norm(it.name) == cn or norm(it.name).split(' where ')[0].strip() == cn):
                    hits.append(it)
                elif ckind in ('mod', 'trait') and it.kind == ckind and it.name == cn.split(' ', 1)[1]:
                    hits.append(it)
            if not hits:
                raise AnchorError(f'{self.path}: container `{c}` not found')
            # several impl blocks with the same header: search all of them
            level = [ch for h in hits for ch in self.children(h)]
        dn = norm(designator)
        dkind, dname = dn.split(' ', 1)
        hits = []
        for it in level:
            if dkind == 'impl':
                if it.kind == 'impl' and norm(it.name) == dn:
                    hits.append(it)
            elif dkind == 'macro':
                if it.kind == 'macro' and it.name == dname:
                    hits.append(it)
            elif it.kind == dkind and it.name == dname:
                hits.append(it)
        if not hits:
            raise AnchorError(f'{self.path}: item `{designator}` not found in {containers or "file"}')
        if len(hits) > 1:
            raise AnchorError(f'{self.path}: item `{designator}` found {len(hits)} times in {containers or "file"}')
        return hits[0]

    def line_of(self, byte):
        return self.text.count('\n', 0, byte) + 1


class Slice:
    """a verbatim byte range of a repo file"""

    def __init__(self, source, start, end, what):
        self.path = source.path
        self.start, self.end = start, end
        self.text = source.text[start:end]
        self.line0 = source.line_of(start)
        self.line1 = source.line_of(end)
        self.sha256 = hashlib.sha256(self.text.encode()).hexdigest()
        self.what = what

    def report(self):
        return {'item': self.what, 'file': self.path, 'bytes': [self.start, self.end],
                'lines': [self.line0, self.line1], 'sha256': self.sha256}
