"""Minimal Rust tokeniser for vx.

Produces a flat list of tokens (kind, text, start, end) over a source string.
Kinds: 'ws', 'comment', 'doc', 'str', 'char', 'life', 'id', 'num', 'p' (punct).
Whitespace and comments are kept as tokens so that slices can be re-emitted
byte-for-byte; `sig()` gives the significant tokens only.
"""
import re

ID_START = re.compile(r'[A-Za-z_]')
ID_RE = re.compile(r'[A-Za-z_][A-Za-z0-9_]*')
NUM_RE = re.compile(r'[0-9][0-9A-Za-z_]*(\.[0-9][0-9A-Za-z_]*)?')
RAW_RE = re.compile(r'(b|c)?r(#*)"')


class Tok:
    __slots__ = ('kind', 'text', 'start', 'end')

    def __init__(self, kind, text, start, end):
        self.kind, self.text, self.start, self.end = kind, text, start, end

    def __repr__(self):
        return f'{self.kind}:{self.text!r}@{self.start}'


class LexError(Exception):
    pass


def lex(src):
    toks = []
    i, n = 0, len(src)
    while i < n:
        c = src[i]
        if c.isspace():
            j = i
            while j < n and src[j].isspace():
                j += 1
            toks.append(Tok('ws', src[i:j], i, j))
            i = j
            continue
        if src.startswith('//', i):
            j = src.find('\n', i)
            if j < 0:
                j = n
            text = src[i:j]
            kind = 'doc' if (text.startswith('///') and not text.startswith('////')) or text.startswith('//!') else 'comment'
            toks.append(Tok(kind, text, i, j))
            i = j
            continue
        if src.startswith('/*', i):
            depth, j = 1, i + 2
            while j < n and depth > 0:
                if src.startswith('/*', j):
                    depth += 1
                    j += 2
                elif src.startswith('*/', j):
                    depth -= 1
                    j += 2
                else:
                    j += 1
            if depth:
                raise LexError('unterminated block comment')
            toks.append(Tok('comment', src[i:j], i, j))
            i = j
            continue
        m = RAW_RE.match(src, i)
        if m:
            hashes = m.group(2)
            close = '"' + hashes
            j = src.find(close, m.end())
            if j < 0:
                raise LexError('unterminated raw string')
            j += len(close)
            toks.append(Tok('str', src[i:j], i, j))
            i = j
            continue
        if c == '"' or (c in 'bc' and i + 1 < n and src[i + 1] == '"'):
            j = i + (1 if c == '"' else 2)
            while j < n and src[j] != '"':
                if src[j] == '\\':
                    j += 1
                j += 1
            if j >= n:
                raise LexError('unterminated string')
            j += 1
            toks.append(Tok('str', src[i:j], i, j))
            i = j
            continue
        if c == "'" or (c == 'b' and i + 1 < n and src[i + 1] == "'"):
            k = i + (1 if c == "'" else 2)
            if k < n and src[k] == '\\':
                j = k + 2
                while j < n and src[j] != "'":
                    j += 1
                j += 1
                toks.append(Tok('char', src[i:j], i, j))
                i = j
                continue
            if k + 1 < n and src[k + 1] == "'":
                toks.append(Tok('char', src[i:k + 2], i, k + 2))
                i = k + 2
                continue
            if c == "'":
                m2 = ID_RE.match(src, k)
                if m2:
                    toks.append(Tok('life', src[i:m2.end()], i, m2.end()))
                    i = m2.end()
                    continue
            # lone quote: treat as punct
            toks.append(Tok('p', c, i, i + 1))
            i += 1
            continue
        if ID_START.match(c):
            m2 = ID_RE.match(src, i)
            j = m2.end()
            # raw identifier r#name
            toks.append(Tok('id', src[i:j], i, j))
            i = j
            if src.startswith('#', i) and toks[-1].text == 'r' and i + 1 < n and ID_START.match(src[i + 1]):
                m3 = ID_RE.match(src, i + 1)
                toks[-1] = Tok('id', src[toks[-1].start:m3.end()], toks[-1].start, m3.end())
                i = m3.end()
            continue
        if c.isdigit():
            m2 = NUM_RE.match(src, i)
            j = m2.end()
            # `0..n` : do not swallow the range dots
            text = src[i:j]
            if '.' in text and src.startswith('..', i + text.index('.')):
                j = i + text.index('.')
            toks.append(Tok('num', src[i:j], i, j))
            i = j
            continue
        toks.append(Tok('p', c, i, i + 1))
        i += 1
    return toks


def sig(toks):
    """significant tokens (no whitespace / comments / doc comments)"""
    return [t for t in toks if t.kind not in ('ws', 'comment', 'doc')]


OPEN = {'(': ')', '[': ']', '{': '}'}
CLOSE = {')': '(', ']': '[', '}': '{'}


def match_close(st, i):
    """st: significant tokens; st[i] is an opening bracket; returns index of its closer."""
    assert st[i].kind == 'p' and st[i].text in OPEN, st[i]
    depth = 0
    j = i
    while j < len(st):
        t = st[j]
        if t.kind == 'p':
            if t.text in OPEN:
                depth += 1
            elif t.text in CLOSE:
                depth -= 1
                if depth == 0:
                    return j
        j += 1
    raise LexError(f'unbalanced bracket at byte {st[i].start}')


def norm(text):
    """whitespace/comment-insensitive normal form of a token string"""
    return ' '.join(t.text for t in sig(lex(text)))
