"""Unit generation: template (prelude + //@@ directives) + /repo slices -> one Verus file.

Directive lines start with `//@@`.  See DESIGN.md §4 for the format.
"""
import os
import re
import shlex
from .lexer import lex, sig, match_close, norm
from .extract import Source, Slice, AnchorError, _skip_angle
from . import rewrite as rw

REPO = os.environ.get('VERIF_REPO', '/repo')

LABEL_RE = re.compile(r'^\s*//#\s*(\S+)(?:\s*\[([^\]]*)\])?')


class Obligation:
    def __init__(self, oid, kind, fn, props, text=''):
        self.id, self.kind, self.fn, self.props, self.text = oid, kind, fn, props, text

    def rec(self):
        return {'id': self.id, 'kind': self.kind, 'function': self.fn, 'properties': sorted(self.props), 'text': self.text[:300]}


class FnInfo:
    def __init__(self, name):
        self.name = name
        self.slice = None
        self.props = set()
        self.gen_lines = None       # (first, last) generated line range of the whole function
        self.contract_lines = []    # [(first,last,section,loop)]
        self.rewrites = {}
        self.labels = []            # (gen_line, section, loop, label, props)
        self.obligations = []
        self.calls = []             # (gen_line_of_call_token, byte, callee, ordinal)
        self.is_fn = True
        self.traitpost = False
        self.attr = None
        self.n_loops = 0
        self.lost_anchors = []      # contract parts that could not be attached (loop / call the directive names is gone): the function is UNDECIDED


class Generated:
    def __init__(self, unit):
        self.unit = unit
        self.lines = []             # generated text lines
        self.origin = []            # per line: ('repo', path, line) | ('contract', fn, section) | ('tmpl', line)
        self.fns = {}
        self.order = []
        self.slices = []
        self.rewrite_counts = {}
        self.trusted = []
        self.text = ''

    def repo_loc(self, gen_line):
        if 1 <= gen_line <= len(self.origin):
            o = self.origin[gen_line - 1]
            if o[0] == 'repo':
                return f'{o[1]}:{o[2]}'
            if o[0] == 'contract':
                return f'contract of {o[1]} ({o[2]})'
            return f'prelude line {o[1]}'
        return '?'


def _parse_kv(s):
    out = {}
    flags = []
    for part in shlex.split(s):
        if '=' in part:
            k, v = part.split('=', 1)
            out.setdefault(k, [])
            out[k].append(v)
        else:
            flags.append(part)
    return out, flags


class Directive:
    def __init__(self, kind, arg, lineno):
        self.kind, self.arg, self.lineno = kind, arg, lineno
        self.body = []


def _split_template(text):
    """-> list of ('text', [lines], first_lineno) | ('extract', Block)"""
    parts = []
    lines = text.split('\n')
    i = 0
    cur = []
    cur0 = 1
    defaults = []
    while i < len(lines):
        ln = lines[i]
        s = ln.strip()
        if s.startswith('//@@'):
            body = s[4:].strip()
            kind = body.split(' ', 1)[0] if body else ''
            arg = body[len(kind):].strip()
            if kind in ('default', 'heapmethods', 'heapmethods2', 'unit'):
                defaults.append(Directive(kind, arg, i + 1))
                i += 1
                continue
            if kind == 'extract':
                if cur:
                    parts.append(('text', cur, cur0))
                    cur = []
                blk = {'head': Directive(kind, arg, i + 1), 'subs': []}
                i += 1
                while i < len(lines):
                    s2 = lines[i].strip()
                    if s2.startswith('//@@'):
                        b2 = s2[4:].strip()
                        k2 = b2.split(' ', 1)[0]
                        a2 = b2[len(k2):].strip()
                        if k2 == 'end':
                            i += 1
                            break
                        blk['subs'].append(Directive(k2, a2, i + 1))
                    else:
                        if not blk['subs']:
                            raise AnchorError(f'template line {i+1}: text inside extract block before a section directive')
                        blk['subs'][-1].body.append((lines[i], i + 1))
                    i += 1
                parts.append(('extract', blk))
                cur0 = i + 1
                continue
            raise AnchorError(f'template line {i+1}: unknown directive `{kind}`')
        cur.append(ln)
        i += 1
    if cur:
        parts.append(('text', cur, cur0))
    return parts, defaults


def _fn_layout(text):
    """locate signature pieces of a `fn` item in (rewritten) slice text.
    returns dict(params_close, ret_start, ret_end, body_open, body_close) as byte offsets (None if absent)."""
    st = sig(lex(text))
    i = 0
    while i < len(st) and not (st[i].kind == 'id' and st[i].text == 'fn'):
        if st[i].kind == 'p' and st[i].text == '#' and st[i + 1].text == '[':
            i = match_close(st, i + 1)
        i += 1
    if i >= len(st):
        raise AnchorError('not a fn item')
    j = i + 2
    if st[j].text == '<':
        j = _skip_angle(st, j)
    if st[j].text != '(':
        raise AnchorError('fn: parameter list not found')
    pc = match_close(st, j)
    lay = {'name': st[i + 1].text, 'params_open': st[j].end, 'params_close': st[pc].start, 'params_empty': pc == j + 1,
           'last_param_comma': st[pc - 1].text == ',', 'ret_start': None, 'ret_end': None, 'body_open': None, 'body_close': None,
           'fn_tok': i, 'st': st}
    k = pc + 1
    if k + 1 < len(st) and st[k].text == '-' and st[k + 1].text == '>':
        rs = k + 2
        m = rs
        while m < len(st) and not (st[m].kind == 'p' and st[m].text in ('{', ';')) and not (st[m].kind == 'id' and st[m].text == 'where'):
            if st[m].text == '<':
                m = _skip_angle(st, m)
                continue
            if st[m].text in ('(', '['):
                m = match_close(st, m) + 1
                continue
            m += 1
        lay['ret_start'], lay['ret_end'] = st[rs].start, st[m - 1].end
        k = m
    while k < len(st) and not (st[k].kind == 'p' and st[k].text in ('{', ';')):
        if st[k].text == '<':
            k = _skip_angle(st, k)
            continue
        k += 1
    if k < len(st) and st[k].text == '{':
        lay['body_open'] = st[k].start
        lay['body_close'] = st[match_close(st, k)].start
        lay['body_open_tok'] = k
    return lay


LOOP_KW = ('for', 'while', 'loop')


def _loops(text, body_open_byte):
    """[(kw_byte, body_open_byte, in_byte_or_None)] for loops in source order inside the fn body"""
    st = sig(lex(text))
    out = []
    for i, t in enumerate(st):
        if t.start <= body_open_byte:
            continue
        if t.kind == 'id' and t.text in LOOP_KW:
            if t.text == 'for' and i + 1 < len(st) and st[i + 1].text == '<':
                continue
            j = i + 1
            in_byte = None
            while j < len(st):
                u = st[j]
                if u.kind == 'p' and u.text == '{':
                    break
                if u.kind == 'p' and u.text in ('(', '['):
                    j = match_close(st, j) + 1
                    continue
                if t.text == 'for' and u.kind == 'id' and u.text == 'in' and in_byte is None:
                    in_byte = u.end
                j += 1
            out.append((t.start, st[j].start, in_byte))
    return out


def _section_clauses(body_lines):
    """split a spec section body into (keyword-section, label, props, text, tmpl_lineno) entries; returns also raw text"""
    sec = None
    labels = []
    for ln, no in body_lines:
        s = ln.strip()
        m = re.match(r'^(requires|ensures|invariant|invariant_except_break|ensures_break|decreases|recommends|no_unwind)\b', s)
        if m:
            sec = m.group(1)
        lm = LABEL_RE.match(ln)
        if lm:
            props = set(p.strip() for p in (lm.group(2) or '').split(',') if p.strip())
            labels.append((sec, lm.group(1), props, no))
    return labels


def _expand_includes(text, base, depth=0):
    if depth > 5:
        raise AnchorError('include depth')
    out = []
    for ln in text.split('\n'):
        s = ln.strip()
        if s.startswith('//@@ include '):
            parts = shlex.split(s[len('//@@ include '):])
            path = os.path.join(base, parts[0])
            sub = open(path).read()
            defined = set()
            for kv in parts[1:]:
                k, v = kv.split('=', 1)
                sub = sub.replace('@' + k + '@', v)
                defined.add(k)
            # `//@@ ifndef K` ... `//@@ endif`: the block is dropped when the include line passes K=...
            kept, skipping = [], False
            for sl in sub.split('\n'):
                ss = sl.strip()
                if ss.startswith('//@@ ifndef '):
                    skipping = ss[len('//@@ ifndef '):].strip() in defined
                    continue
                if ss == '//@@ endif':
                    skipping = False
                    continue
                if not skipping:
                    kept.append(sl)
            sub = '\n'.join(kept)
            out.append(f'// ---- begin include {parts[0]} {" ".join(parts[1:])}')
            out.append(_expand_includes(sub, base, depth + 1).rstrip('\n'))
            out.append(f'// ---- end include {parts[0]}')
        else:
            out.append(ln)
    return '\n'.join(out)


def generate(unit, template_path, repo=None, canary=False):
    repo = repo or REPO
    text = _expand_includes(open(template_path).read(), os.path.join(os.path.dirname(os.path.dirname(os.path.abspath(template_path)))))
    parts, defaults = _split_template(text)
    g = Generated(unit)
    dflt = {'rewrites': ['R1', 'R2', 'R3', 'R5', 'R13'], 'ghost': None, 'ghostarg': None, 'props': [], 'loopinv': None, 'bodyprelude': None, 'attr': None}
    heapmethods = set()
    heapmethods2 = set()
    heap2_arg = None
    for d in defaults:
        if d.kind == 'default':
            kv, flags = _parse_kv(d.arg)
            for k, v in kv.items():
                if k == 'rewrites':
                    dflt['rewrites'] = v[-1].split(',')
                elif k == 'props':
                    dflt['props'] = v[-1].split(',')
                else:
                    dflt[k] = v[-1]
        elif d.kind == 'heapmethods':
            heapmethods.update(d.arg.split())
        elif d.kind == 'heapmethods2':
            # a second group of methods threaded with its own ghost argument:  //@@ heapmethods2 "<ghost arg>" m1 m2 ...
            m2 = re.match(r'^"([^"]*)"\s+(.*)$', d.arg)
            if not m2:
                raise AnchorError('bad heapmethods2 directive')
            heap2_arg = m2.group(1)
            heapmethods2.update(m2.group(2).split())
    sources = {}
    canary_flags = []
    segs = []   # (text, origin_kind, a, b)   origin: ('tmpl', first_lineno) | ('repo', path, first_line) | ('contract', fn, section)

    def count(rid, n):
        if n:
            g.rewrite_counts[rid] = g.rewrite_counts.get(rid, 0) + n

    for part in parts:
        if part[0] == 'text':
            segs.append(('\n'.join(part[1]) + '\n', ('tmpl', part[2])))
            continue
        blk = part[1]
        kv, flags = _parse_kv(blk['head'].arg)
        path = kv['file'][0]
        if path not in sources:
            full = os.path.join(repo, path)
            if not os.path.exists(full):
                raise AnchorError(f'{path}: file not found')
            sources[path] = Source(path, open(full).read())
        src = sources[path]
        containers = kv.get('in', [])
        designator = kv['item'][0]
        item = src.find(containers, designator)
        sl = Slice(src, item.start, item.end, (' > '.join(containers) + ' > ' if containers else '') + designator)
        lifted_sig = None
        if 'closure' in kv:
            # R9 closure lifting: the k-th closure literal with a block body inside the item becomes a free function
            # whose signature (parameters = closure parameters + captures) is given by the template
            csel = kv['closure'][0]
            want_params = None
            if csel.startswith('params:'):
                spec_ = csel[len('params:'):]
                pp, _, oo = spec_.partition('#')
                want_params = [x.strip() for x in pp.split(',') if x.strip()]
                kth = int(oo or 1)
            else:
                kth = int(csel)
            stt = src.st
            cnt = 0
            found = None
            i0 = item.body_open if item.body_open is not None else item.a
            i = i0
            while i < item.b:
                t = stt[i]
                if t.kind == 'p' and t.text == '|' and stt[i - 1].text in ('(', ',', '=', 'move', '{', ';', 'return', '&'):
                    j = i + 1
                    if stt[j].text == '|':      # `||`
                        pe = j
                    else:
                        while j < item.b and stt[j].text != '|':
                            if stt[j].text in ('(', '[', '{'):
                                j = match_close(stt, j)
                            j += 1
                        pe = j
                    if stt[pe + 1].text == '{' and (want_params is None or [t2.text for t2 in stt[i + 1:pe] if t2.kind == 'id'] == want_params):
                        cnt += 1
                        if cnt == kth:
                            found = (i, pe, pe + 1, match_close(stt, pe + 1))
                            break
                        i = pe + 1
                        continue
                    i = pe
                i += 1
            if not found:
                raise AnchorError(f'{path}: closure #{kth} not found in {designator}')
            ci, pe, bo, bc = found
            cparams = [t.text for t in stt[ci + 1:pe] if t.kind == 'id']
            lifted_sig = kv['sig'][0]
            for cp in cparams:
                if cp == '_':
                    continue      # an ignored closure parameter binds nothing (Verus rejects `_` as a function parameter)
                if not re.search(r'\b' + re.escape(cp) + r'\s*:', lifted_sig):
                    raise AnchorError(f'{path}: closure #{kth} of {designator}: parameter `{cp}` missing from the lifted signature')
            sl = Slice(src, stt[bo].start, stt[bc].end, (' > '.join(containers) + ' > ' if containers else '') + designator + f' > closure #{kth}')
            count('R9', 1)
        if 'arm' in kv:
            # R9b match-arm lifting: the block of the arm whose pattern is given (token for token) becomes a free function; the
            # variables bound by the pattern and the captured locals are the parameters of the template's signature
            from .lexer import lex as _lex, sig as _sig
            pat_toks = [t.text for t in _sig(_lex(kv['arm'][0]))]
            stt = src.st
            i0 = item.body_open if item.body_open is not None else item.a
            found = None
            i = i0
            expr_arm = False
            while i < item.b - len(pat_toks):
                if [t.text for t in stt[i:i + len(pat_toks)]] == pat_toks and stt[i + len(pat_toks)].text == '=' and stt[i + len(pat_toks) + 1].text == '>' \
                        and stt[i - 1].text in ('{', ',', '}', '|'):
                    if found is not None:
                        raise AnchorError(f'{path}: arm `{kv["arm"][0]}` found more than once in {designator}')
                    bo = i + len(pat_toks) + 2
                    if stt[bo].text == '{':
                        found = (bo, match_close(stt, bo))
                    else:
                        # an expression arm `PAT => EXPR,`: the expression up to the `,` (or the closing brace of the match) at depth 0
                        j = bo
                        while j < item.b:
                            if stt[j].kind == 'p' and stt[j].text in ('(', '[', '{'):
                                j = match_close(stt, j)
                            elif stt[j].kind == 'p' and stt[j].text in (',', '}'):
                                break
                            j += 1
                        found = (bo, j - 1)
                        expr_arm = True
                i += 1
            if not found:
                raise AnchorError(f'{path}: arm `{kv["arm"][0]}` not found in {designator}')
            bo, bc = found
            lifted_sig = kv['sig'][0] + (' {' if expr_arm else '')
            # `fallsthrough`: a statement arm of a match in a function returning Result<()> whose arms fall through to the common `Ok(())`:
            # the lifted function is `SIG { ARM-BLOCK Ok(()) }` (early `return Err(..)` / `?` inside the block keep their meaning)
            arm_falls = 'fallsthrough' in flags and not expr_arm
            sl = Slice(src, stt[bo].start, stt[bc].end, (' > '.join(containers) + ' > ' if containers else '') + designator + f' > arm `{kv["arm"][0]}`')
            count('R9', 1)
        g.slices.append(sl)
        rewrites = list(dflt['rewrites'])
        ghost, ghostarg = dflt['ghost'], dflt['ghostarg']
        retname = 'ret'
        props = set(dflt['props'])
        if 'props' in kv:
            props = set(kv['props'][-1].split(','))
        qual = kv.get('name', [None])[0]
        if qual is None:
            owner = ''
            for c in containers:
                cn = norm(c)
                if cn.startswith('impl'):
                    owner = re.sub(r'^impl(\s*<[^>]*>)?\s*', '', cn).replace(' ', '')
            qual = (owner + '::' if owner else '') + designator.split(' ', 1)[1].replace(' ', '')
        fi = FnInfo(qual)
        fi.slice = sl
        fi.props = props
        fi.is_fn = designator.startswith('fn ')
        local_heap = set(heapmethods)
        if lifted_sig is not None and 'arm' in kv and arm_falls:
            body = lifted_sig + ' { ' + sl.text + ' Ok(()) }'
        else:
            body = sl.text if lifted_sig is None else lifted_sig + ' ' + sl.text + (' }' if lifted_sig.endswith(' {') else '')
        if lifted_sig is not None:
            fi.is_fn = True
        user_rw = []
        expand_macros = []
        spec_dir = None
        loop_dirs = {}
        body_inserts = []
        structural = 'structural' in flags
        for sd in blk['subs']:
            if sd.kind == 'opt':
                okv, oflags = _parse_kv(sd.arg)
                if 'rewrites' in okv:
                    rewrites = okv['rewrites'][-1].split(',')
                if 'norewrite' in okv:
                    for r in okv['norewrite'][-1].split(','):
                        if r in rewrites:
                            rewrites.remove(r)
                if 'ghost' in okv:
                    ghost = okv['ghost'][-1] or None
                if 'ghostarg' in okv:
                    ghostarg = okv['ghostarg'][-1] or None
                if 'ret' in okv:
                    retname = okv['ret'][-1]
                if 'structural' in oflags:
                    structural = True
                if 'traitpost' in oflags:
                    fi.traitpost = True
                if 'attr' in okv:
                    fi.attr = okv['attr'][-1]
                if 'noghost' in oflags:
                    ghost = None
                if 'heapmethods' in okv:
                    local_heap.update(okv['heapmethods'][-1].split(','))
                if 'noheap' in okv:
                    local_heap.difference_update(okv['noheap'][-1].split(','))
            elif sd.kind == 'rw':
                m = re.match(r'^(\S+)\s+`(.*)`\s*=>\s*`(.*)`\s*(\{[^}]*\})?$', sd.arg)
                if not m:
                    raise AnchorError(f'template line {sd.lineno}: bad rw directive')
                user_rw.append((m.group(1), m.group(2), m.group(3), m.group(4), sd.lineno))
            elif sd.kind == 'expand':
                expand_macros.append((sd.arg.strip(), sd.lineno))
            elif sd.kind == 'spec':
                spec_dir = sd
            elif sd.kind == 'loop':
                a = sd.arg.split()
                lkv, _ = _parse_kv(' '.join(a[1:]))
                loop_dirs[int(a[0])] = (sd, lkv)
            elif sd.kind == 'proof':
                # ghost-only insertion anchored before the k-th call of <callee>:  //@@ proof before=<callee>#k
                pkv, _ = _parse_kv(sd.arg)
                body_inserts.append((pkv, sd))
            else:
                raise AnchorError(f'template line {sd.lineno}: unknown sub-directive `{sd.kind}`')
        # ---- rewrites on the slice text (all newline preserving)
        if 'R1' in rewrites:
            dropd = ()
            for sd in blk['subs']:
                if sd.kind == 'opt':
                    okv, _ = _parse_kv(sd.arg)
                    if 'dropderive' in okv:
                        dropd = tuple(okv['dropderive'][-1].split(','))
            body, n = rw.r1_attrs(body, add_structural=structural, drop_extra=dropd)
            count('R1', n)
            fi.rewrites['R1'] = n
        for mname, lineno in expand_macros:
            # R24: invocations of a local single-rule macro_rules! macro are expanded textually from the macro's definition in the same file
            body, n, (ma, mb) = rw.r24_expand_macro(body, mname, src.text)
            count('R24', n)
            fi.rewrites['R24'] = fi.rewrites.get('R24', 0) + n
            if n and not any(x.path == src.path and x.start == ma for x in g.slices):
                g.slices.append(Slice(src, ma, mb, f'macro_rules! {mname}'))
        for rid, pat, tpl, cnt, lineno in user_rw:
            body, n = rw.apply_pattern(body, pat, tpl)
            if cnt:
                want = cnt.strip('{}').strip()
                ok = (n >= 1) if want == '+' else (n >= 0) if want == '*' else (n == int(want))
            else:
                # a rewrite only exists to make the verifier accept an idiom: where the idiom is absent the true text is verified
                # (or rejected by the type checker -> UNDECIDED); an absent idiom is therefore not a lost anchor
                ok = True
            if not ok:
                raise AnchorError(f'{fi.name}: rewrite {rid} `{pat}` matched {n} times (template line {lineno})')
            count(rid, n)
            fi.rewrites[rid] = fi.rewrites.get(rid, 0) + n
        if fi.is_fn and 'R22' in rewrites:
            body, n = rw.r22_adapters(body)
            count('R22', n)
            if n:
                fi.rewrites['R22'] = n
        if 'R2' in rewrites:
            body, n = rw.r2_logging(body)
            count('R2', n)
            fi.rewrites['R2'] = n
        if 'R3' in rewrites:
            body, n = rw.r3_format(body)
            count('R3', n)
            fi.rewrites['R3'] = n
        if designator.startswith('struct ') and 'keepvis' not in flags:
            body, n = rw.r17_pub_fields(body)
            count('R17', n)
            fi.rewrites['R17'] = n
        if fi.is_fn:
            # R17 (functions): restricted visibility `pub(crate|super|in ..)` widened to `pub` (no run-time effect)
            body, n = rw.apply_pattern(body, 'pub ( $V:args ) fn', 'pub fn')
            count('R17', n)
            body, n = rw.r18_mut_self(body)
            count('R18', n)
            if n:
                fi.rewrites['R18'] = n
        if 'R13' in rewrites:
            body, n = rw.r13_const_str(body)
            count('R13', n)
        if 'nodiscr' in flags or any('nodiscr' in _parse_kv(sd.arg)[1] for sd in blk['subs'] if sd.kind == 'opt'):
            # R16: explicit enum discriminants (`Variant = 0`) and #[repr(..)] erased (Verus ICE on the anonymous consts)
            body, n = rw.apply_pattern(body, '$V:id = $N:lit ,', '$V,')
            body, n2 = rw.apply_pattern(body, '# [ repr ( $T:id ) ]', '')
            count('R16', n + n2)
            fi.rewrites['R16'] = n + n2
        if fi.is_fn and ghostarg and local_heap:
            body, n = rw.append_ghost_arg(body, local_heap, ghostarg)
            count('R4', n)
            fi.rewrites['R4'] = n
        if fi.is_fn and ghost and heap2_arg and heapmethods2:
            body, n = rw.append_ghost_arg(body, heapmethods2, heap2_arg)
            count('R4', n)
            fi.rewrites['R4'] = fi.rewrites.get('R4', 0) + n
        # ---- signature edits + splices (collected as insertions at byte offsets of `body`)
        inserts = []   # (byte, text, origin)
        lowered = []
        if fi.is_fn and 'nolower' not in flags and not any('nolower' in _parse_kv(sd.arg)[1] for sd in blk['subs'] if sd.kind == 'opt'):
            lay0 = _fn_layout(body)
            if lay0['body_open'] is not None:
                if 'R23' in rewrites:
                    body, low23 = rw.r23_iter_mut(body, lay0['body_open'])
                    count('R23', len(low23))
                    if low23:
                        fi.rewrites['R23'] = len(low23)
                    lay0 = _fn_layout(body)
                body, lowered = rw.r15_lower_for(body, lay0['body_open'])
                count('R15', len(lowered))
                if lowered:
                    fi.rewrites['R15'] = len(lowered)
        if fi.is_fn:
            lay = _fn_layout(body)
            if ghost:
                if lay['params_empty']:
                    inserts.append((lay['params_close'], ghost, None))
                elif lay['last_param_comma']:
                    inserts.append((lay['params_close'], ' ' + ghost, None))
                else:
                    inserts.append((lay['params_close'], ', ' + ghost, None))
                count('R4', 1)
            if 'R5' in rewrites and lay['ret_start'] is not None:
                inserts.append((lay['ret_start'], f'({retname}: ', None))
                inserts.append((lay['ret_end'], ')', None))
                count('R5', 1)
            if lay['body_open'] is None and (spec_dir or loop_dirs):
                raise AnchorError(f'{fi.name}: no body to attach a contract to')
            spec_text = ''
            if spec_dir:
                spec_text = '\n'.join(l for l, _ in spec_dir.body)
                for sec, label, lprops, no in _section_clauses(spec_dir.body):
                    fi.labels.append((sec, None, label, lprops or props, no))
            if canary and lay['body_open'] is not None:
                # canary twin: same requires, extra clause `canary_F() ==> false` with a per-function uninterpreted flag
                # (a plain `ensures false` would be visible to callers and poison *their* canaries)
                flag = 'canary__' + re.sub(r'[^A-Za-z0-9_]', '_', fi.name)
                canary_flags.append(flag)
                if re.search(r'^\s*ensures\b', spec_text, re.M):
                    spec_text = re.sub(r'^(\s*)ensures\b', r'\1ensures ' + flag + '() ==> false, ', spec_text, count=1, flags=re.M)
                else:
                    spec_text = spec_text.rstrip() + ('\n' if spec_text.strip() else '') + '    ensures ' + flag + '() ==> false,'
            if spec_text.strip():
                inserts.append((lay['body_open'], '\n' + spec_text.rstrip() + '\n', ('contract', fi.name, 'spec')))
            if dflt.get('bodyprelude') and (ghost or not dflt.get('ghost')) and lay['body_open'] is not None:
                # ghost-only: lemma groups enabled at the top of the body (no in-body hints needed for transitivity)
                inserts.append((lay['body_open'] + 1, ' ' + dflt['bodyprelude'] + ' ', None))
            auto_inv = dflt.get('loopinv') if ghost else None
            all_loops = _loops(body, lay['body_open']) if lay['body_open'] is not None else []
            fi.n_loops = len(all_loops)
            if loop_dirs or lowered or (auto_inv and all_loops):
                loops = all_loops
                ks = set(loop_dirs) | set(lowered)
                if auto_inv:
                    ks |= set(range(1, len(loops) + 1))
                for k in sorted(ks):
                    if k < 1 or k > len(loops):
                        # the loop a contract is attached to is gone: THIS function is undecided (its contract cannot be spliced), the rest of
                        # the unit is still generated and checked
                        fi.lost_anchors.append(f'loop {k} not found (function has {len(loops)} loops)')
                        continue
                    kw_b, open_b, in_b = loops[k - 1]
                    ltxt = ''
                    lkv = {}
                    if k in loop_dirs:
                        sd, lkv = loop_dirs[k]
                        ltxt = '\n'.join(l for l, _ in sd.body)
                        for sec, label, lprops, no in _section_clauses(sd.body):
                            fi.labels.append((sec, k, label, lprops or props, no))
                    if k in lowered:
                        # auto (ghost-only) bound + measure of the lowered loop; user clauses follow
                        # canonical clause order of a Verus loop: invariant_except_break, invariant, ensures, decreases
                        secs = {'invariant_except_break': [], 'invariant': [], 'ensures': [], 'decreases': []}
                        cur_sec = 'invariant'
                        for l in ltxt.split('\n'):
                            msec = re.match(r'^(\s*)(invariant_except_break|invariant|ensures|decreases)\b(.*)$', l)
                            if msec and msec.group(2) in secs:
                                cur_sec = msec.group(2)
                                rest_l = msec.group(1) + ' ' * len(msec.group(2)) + msec.group(3)
                                if rest_l.strip():
                                    secs[cur_sec].append(rest_l)
                            else:
                                secs[cur_sec].append(l)
                        rev_loop = f'let mut __i{k}: usize = __v{k}.len(); while __i{k} > 0' in body
                        if not any(x.strip() for x in secs['decreases']):
                            secs['decreases'] = [f'        __i{k},' if rev_loop else f'        __v{k}.len() - __i{k},']
                        parts_l = []
                        if any(x.strip() for x in secs['invariant_except_break']):
                            parts_l.append('        invariant_except_break\n' + '\n'.join(secs['invariant_except_break']).rstrip())
                        parts_l.append(f'        invariant __i{k} <= __v{k}.len(), ' + (auto_inv or '') + '\n' + '\n'.join(secs['invariant']).rstrip())
                        if any(x.strip() for x in secs['ensures']):
                            parts_l.append('        ensures\n' + '\n'.join(secs['ensures']).rstrip())
                        parts_l.append('        decreases\n' + '\n'.join(secs['decreases']).rstrip())
                        ltxt = '\n'.join(parts_l)
                    elif auto_inv:
                        if re.search(r'^\s*invariant\b', ltxt, re.M):
                            ltxt = re.sub(r'^(\s*)invariant\b', r'\1invariant ' + auto_inv, ltxt, count=1, flags=re.M)
                        else:
                            ltxt = '        invariant ' + auto_inv + '\n' + ltxt
                    if 'iter' in lkv:
                        if in_b is None:
                            raise AnchorError(f'{fi.name}: loop {k} is not a for loop')
                        inserts.append((in_b, ' ' + lkv['iter'][0] + ':', None))
                    if ltxt.strip():
                        inserts.append((open_b, '\n' + ltxt.rstrip() + '\n', ('contract', fi.name, f'loop {k}')))
            for pkv, sd in body_inserts:
                ptxt = '\n'.join(l for l, _ in sd.body)
                for l, no in sd.body:
                    lm = LABEL_RE.match(l)
                    if lm:
                        lprops = set(x.strip() for x in (lm.group(2) or '').split(',') if x.strip())
                        fi.labels.append(('assert', None, lm.group(1), lprops or props, no))
                st = sig(lex(body))
                if 'before' in pkv or 'after' in pkv:
                    key = 'before' if 'before' in pkv else 'after'
                    callee, _, ordn = pkv[key][0].partition('#')
                    ordn = int(ordn or 1)
                    hits = [i for i, t in enumerate(st) if t.kind == 'id' and t.text == callee and i + 1 < len(st) and st[i + 1].text == '(' and t.start > lay['body_open']]
                    if len(hits) < ordn:
                        fi.lost_anchors.append(f'proof anchor {callee}#{ordn} not found')
                        continue
                    # statement start: walk back to previous ';' '{' or '}' at same depth
                    i = hits[ordn - 1]
                    if key == 'before':
                        depth = 0
                        j = i - 1
                        while j >= 0:
                            t = st[j]
                            if t.kind == 'p' and t.text in (')', ']', '}'):
                                if depth == 0 and t.text == '}':
                                    break
                                depth += 1
                            elif t.kind == 'p' and t.text in ('(', '[', '{'):
                                if depth == 0:
                                    break
                                depth -= 1
                            elif t.kind == 'p' and t.text == ';' and depth == 0:
                                break
                            j -= 1
                        pos = st[j].end
                    else:
                        j = match_close(st, i + 1) + 1
                        while j < len(st):
                            t = st[j]
                            if t.kind == 'p' and t.text == '{':
                                break          # `if let .. = CALL {` / `match CALL {`: hint goes to the start of the block
                            if t.kind == 'p' and t.text in ('(', '['):
                                j = match_close(st, j)
                            elif t.kind == 'p' and t.text == ';':
                                break
                            elif t.kind == 'p' and t.text in (')', ']'):
                                pass        # the call is an argument of an enclosing call: the hint goes after the enclosing statement
                            elif t.kind == 'p' and t.text == '}':
                                raise AnchorError(f'{fi.name}: proof anchor after={callee}#{ordn}: call is the tail of a block')
                            j += 1
                        if j >= len(st):
                            raise AnchorError(f'{fi.name}: proof anchor after={callee}#{ordn}: no statement end')
                        pos = st[j].end
                    inserts.append((pos, '\n' + ptxt.rstrip() + '\n', ('contract', fi.name, 'proof')))
                elif 'at' in pkv and pkv['at'][0].startswith('afterloop'):
                    k = int(pkv['at'][0][9:])
                    loops = _loops(body, lay['body_open'])
                    if k < 1 or k > len(loops):
                        fi.lost_anchors.append(f'proof anchor loop {k} not found')
                        continue
                    oi = [i for i, t in enumerate(st) if t.start == loops[k - 1][1]][0]
                    ci = match_close(st, oi)
                    inserts.append((st[ci].end, '\n' + ptxt.rstrip() + '\n', ('contract', fi.name, 'proof')))
                elif 'at' in pkv and pkv['at'][0].startswith('beforeloop'):
                    k = int(pkv['at'][0][10:])
                    loops = _loops(body, lay['body_open'])
                    if k < 1 or k > len(loops):
                        fi.lost_anchors.append(f'proof anchor loop {k} not found')
                        continue
                    # a labelled loop keeps its label: insert before the label if present
                    pos = loops[k - 1][0]
                    inserts.append((pos, ptxt.strip().replace('\n', ' ') + ' ', None))
                elif 'at' in pkv and pkv['at'][0].startswith('loop'):
                    k = int(pkv['at'][0][4:])
                    loops = _loops(body, lay['body_open'])
                    if k < 1 or k > len(loops):
                        fi.lost_anchors.append(f'proof anchor loop {k} not found')
                        continue
                    inserts.append((loops[k - 1][1] + 1, '\n' + ptxt.rstrip() + '\n', ('contract', fi.name, 'proof')))
                elif 'at' in pkv and pkv['at'][0] == 'end':
                    # just before the closing brace of the body (only sound as a hint position when the body ends with a statement, not a tail expression)
                    inserts.append((lay['body_close'], '\n' + ptxt.rstrip() + '\n', ('contract', fi.name, 'proof')))
                elif 'at' in pkv and pkv['at'][0] == 'start':
                    inserts.append((lay['body_open'] + 1, '\n' + ptxt.rstrip() + '\n', ('contract', fi.name, 'proof')))
                else:
                    raise AnchorError(f'template line {sd.lineno}: proof needs before=/after=/at=start')
        if fi.attr is None and dflt.get('attr') and ghost and fi.is_fn:
            fi.attr = dflt['attr']
        if fi.attr:
            inserts.append((0, fi.attr + ' ', None))
        # ---- emit
        inserts.sort(key=lambda x: x[0])
        pos = 0
        line = sl.line0
        seg_start = len(segs)
        for b, txt, origin in inserts:
            chunk = body[pos:b]
            if chunk:
                segs.append((chunk, ('repo', sl.path, line)))
                line += chunk.count('\n')
            if origin is None:
                if '\n' in txt:
                    raise AnchorError('internal: inline insert with newline')
                segs.append((txt, ('inline',)))
            else:
                segs.append((txt, origin))
            pos = b
        chunk = body[pos:]
        segs.append((chunk, ('repo', sl.path, line)))
        segs.append(('\n', ('tmpl', blk['head'].lineno)))
        fi._seg_range = (seg_start, len(segs))
        g.fns[fi.name] = fi
        g.order.append(fi.name)

    # ---- assemble lines + origins
    out = []
    origins = []
    cur_line_origin = None
    gen_line = 1
    fn_line_ranges = {}
    seg_first_line = []
    col_open = False
    for idx, (txt, origin) in enumerate(segs):
        seg_first_line.append(gen_line)
        rel = 0
        for ch_i, piece in enumerate(txt.split('\n')):
            if ch_i > 0:
                gen_line += 1
                rel += 1
                col_open = False
            if not col_open and (piece != '' or True):
                # origin of a generated line = origin of the first segment that puts text on it
                if len(origins) < gen_line:
                    if origin[0] == 'repo':
                        origins.append(('repo', origin[1], origin[2] + rel))
                    elif origin[0] == 'tmpl':
                        origins.append(('tmpl', origin[1] + rel))
                    elif origin[0] == 'contract':
                        origins.append(('contract', origin[1], origin[2]))
                    else:
                        origins.append(('tmpl', 0))
                col_open = True
        out.append(txt)
    g.text = ''.join(out)
    if canary_flags:
        decl = ' '.join(f'pub uninterp spec fn {f}() -> bool;' for f in canary_flags)
        m = re.search(r'^verus!\s*\{[^\n]*$', g.text, re.M)
        if not m:
            raise AnchorError('template has no `verus! {` line')
        g.text = g.text[:m.end()] + ' ' + decl + g.text[m.end():]
    g.lines = g.text.split('\n')
    while len(origins) < len(g.lines):
        origins.append(('tmpl', 0))
    g.origin = origins
    for name in g.order:
        fi = g.fns[name]
        a, b = fi._seg_range
        first = seg_first_line[a]
        last = seg_first_line[b - 1] if b - 1 < len(seg_first_line) else len(g.lines)
        fi.gen_lines = (first, last)
    _index_obligations(g)
    return g


def _index_obligations(g):
    """locate label lines in generated text, count call sites of callees that carry a `requires`."""
    # 1. every fn in the generated file that has a requires clause (prelude or extracted)
    st = sig(lex(g.text))
    req_fns = set()
    all_fn_regions = []     # (name, first_line, last_line, has_requires)
    line_of = _line_index(g.text)
    i = 0
    while i < len(st):
        t = st[i]
        if t.kind == 'id' and t.text == 'fn' and i + 2 < len(st) and st[i + 1].kind == 'id':
            name = st[i + 1].text
            j = i + 2
            if st[j].text == '<':
                j = _skip_angle(st, j)
            if st[j].text == '(':
                pc = match_close(st, j)
                k = pc + 1
                has_req = False
                while k < len(st) and not (st[k].kind == 'p' and st[k].text in ('{', ';')):
                    if st[k].kind == 'id' and st[k].text == 'requires':
                        has_req = True
                    if st[k].kind == 'p' and st[k].text in ('(', '['):
                        k = match_close(st, k)
                    k += 1
                end = k
                if k < len(st) and st[k].text == '{':
                    end = match_close(st, k)
                if has_req:
                    req_fns.add(name)
                all_fn_regions.append((name, line_of(t.start), line_of(st[min(end, len(st) - 1)].end), has_req, line_of(st[min(k, len(st) - 1)].start)))
        i += 1
    g.all_fn_regions = all_fn_regions
    g.req_fns = req_fns
    # 2. per extracted fn
    for name in g.order:
        fi = g.fns[name]
        if not fi.is_fn:
            continue
        first, last = fi.gen_lines
        # label lines
        lab_lines = []
        for ln in range(first, last + 1):
            m = LABEL_RE.match(g.lines[ln - 1])
            if m and g.origin[ln - 1][0] == 'contract':
                lab_lines.append((ln, m.group(1)))
        fi.label_lines = lab_lines
        seen = {}
        for sec, loop, label, props, no in fi.labels:
            if sec in ('ensures', 'ensures_break'):
                oid = f'{g.unit}::{fi.name}::post:{label}' if loop is None else f'{g.unit}::{fi.name}::loop{loop}:post:{label}'
                kind = 'post'
            elif sec in ('invariant', 'invariant_except_break'):
                oid = f'{g.unit}::{fi.name}::loop{loop}:inv:{label}'
                kind = 'inv'
            elif sec == 'assert':
                oid = f'{g.unit}::{fi.name}::assert:{label}'
                kind = 'assert'
            else:
                continue
            if oid in seen:
                raise AnchorError(f'duplicate label {oid}')
            seen[oid] = 1
            fi.obligations.append(Obligation(oid, kind, fi.name, props))
        # call sites of callees with requires (in repo-origin lines of the fn)
        a_byte = _byte_of_line(g.text, first)
        b_byte = _byte_of_line(g.text, last + 1)
        counts = {}
        for k, t in enumerate(st):
            if t.start < a_byte or t.start >= b_byte:
                continue
            if t.kind == 'id' and t.text in req_fns and k + 1 < len(st) and st[k + 1].text == '(' and st[k - 1].text != 'fn':
                ln = line_of(t.start)
                if g.origin[ln - 1][0] != 'repo':
                    continue
                counts[t.text] = counts.get(t.text, 0) + 1
                j = counts[t.text]
                fi.calls.append((ln, t.start, t.text, j))
                fi.obligations.append(Obligation(f'{g.unit}::{fi.name}::pre@{t.text}#{j}', 'pre', fi.name, fi.props,
                                                 f'{g.repo_loc(ln)}'))
        if fi.traitpost:
            fi.obligations.append(Obligation(f'{g.unit}::{fi.name}::post:trait', 'post', fi.name, fi.props, 'postcondition declared on the trait method (prelude / vstd spec trait)'))
        fi.obligations.append(Obligation(f'{g.unit}::{fi.name}::safe', 'safe', fi.name, fi.props,
                                         'implicit obligations: arithmetic overflow, index bounds, unwrap, asserts, termination measures'))


def _line_index(text):
    starts = [0]
    for m in re.finditer('\n', text):
        starts.append(m.end())
    import bisect

    def line_of(byte):
        return bisect.bisect_right(starts, byte)
    return line_of


def _byte_of_line(text, line):
    if line <= 1:
        return 0
    pos = -1
    for _ in range(line - 1):
        pos = text.find('\n', pos + 1)
        if pos < 0:
            return len(text)
    return pos + 1
