"""Run Verus on a generated unit and map its diagnostics to obligation ids."""
import json
import os
import re
import subprocess
import time

VERIFY_MSG = (
    'postcondition not satisfied', 'precondition not satisfied', 'invariant not satisfied',
    'assertion failed', 'possible arithmetic', 'possible division by zero', 'possible bit shift',
    'decreases not satisfied', 'could not prove termination', 'loop invariant', 'assertion failure',
    'unable to prove', 'may not be satisfied', 'possible truncation', 'possible overflow', 'failed to satisfy',
    'unreachable code', 'constructed value may fail to meet its declared type invariant', 'possible',
)
RLIMIT_MSG = ('Resource limit', 'rlimit', 'timed out', 'could not be proved due to timeout')


class VerusResult:
    def __init__(self):
        self.exit = None
        self.wall_s = 0.0
        self.cmd = ''
        self.errors = []            # dict(message, spans=[(line_start,line_end,is_primary,label)], rendered)
        self.tool_errors = []       # compile / unsupported errors (-> UNDECIDED)
        self.rlimit = []            # rlimit diagnostics (-> UNDECIDED)
        self.func_stats = {}        # verus function name -> dict(success, time_micros, rlimit)
        self.verified = 0
        self.error_count = 0
        self.smt_ms = 0
        self.total_ms = 0
        self.raw_err = ''
        self.version = ''


def run_verus(path, seed=0, rlimit=None, extra=(), timeout=1800, multiple_errors=20):
    cmd = ['verus', path, '--output-json', '--time', '--multiple-errors', str(multiple_errors), '--error-format=json',
           '--smt-option', f'smt.random_seed={seed}'] + list(extra)
    if rlimit:
        cmd += ['--rlimit', str(rlimit)]
    r = VerusResult()
    r.cmd = ' '.join(cmd)
    t0 = time.time()
    try:
        p = subprocess.run(cmd, capture_output=True, text=True, timeout=timeout, cwd=os.path.dirname(path))
    except subprocess.TimeoutExpired:
        r.exit = -1
        r.rlimit.append({'message': f'verus wall-clock timeout after {timeout}s', 'spans': []})
        r.wall_s = time.time() - t0
        return r
    r.wall_s = time.time() - t0
    r.exit = p.returncode
    r.raw_err = p.stderr
    try:
        out = json.loads(p.stdout)
    except Exception:
        out = None
    if out:
        vr = out.get('verification-results', {})
        r.verified = vr.get('verified', 0)
        r.error_count = vr.get('errors', 0)
        tm = out.get('times-ms', {})
        r.total_ms = tm.get('total', 0)
        r.version = tm.get('verus-build', {}).get('version', '')
        smt = tm.get('smt', {})
        r.smt_ms = smt.get('total', 0)
        for mod in smt.get('smt-run-module-times', []):
            for f in mod.get('function-breakdown', []):
                r.func_stats[f['function']] = {'success': f.get('success'), 'time_micros': f.get('time-micros', 0), 'rlimit': f.get('rlimit', 0)}
    for line in p.stderr.splitlines():
        line = line.strip()
        if not line.startswith('{'):
            if line.startswith('error') or 'panicked' in line:
                r.tool_errors.append({'message': line, 'spans': [], 'rendered': line})
            continue
        try:
            d = json.loads(line)
        except Exception:
            continue
        lvl = d.get('level')
        msg = d.get('message', '')
        spans = [(s['line_start'], s['line_end'], s['is_primary'], s.get('label') or '', s.get('byte_start'), s.get('byte_end'), s.get('file_name', '')) for s in d.get('spans', [])
                 ]
        spans = [s if os.path.basename(s[6]) == os.path.basename(path) else (0, 0, s[2], s[3], None, None, s[6]) for s in spans]
        rec = {'message': msg, 'spans': spans, 'rendered': d.get('rendered', ''), 'level': lvl}
        if lvl == 'error':
            if msg.startswith('aborting due to'):
                continue
            if any(k in msg for k in RLIMIT_MSG):
                r.rlimit.append(rec)
            elif any(k in msg for k in VERIFY_MSG) and not any(k in msg for k in ('cannot be', 'unless', 'not supported', 'unsupported', 'must have')):
                r.errors.append(rec)
            else:
                r.tool_errors.append(rec)
        elif lvl == 'warning' and any(k in msg for k in RLIMIT_MSG):
            r.rlimit.append(rec)
    if out is None and not r.tool_errors and r.exit != 0:
        r.tool_errors.append({'message': 'verus produced no JSON result; stderr tail: ' + p.stderr[-400:], 'spans': [], 'rendered': p.stderr[-2000:]})
    return r


def map_failures(g, res):
    """-> (failed: {obligation_id: [diag records]}, unmapped: [diag])  using the generated-file line map"""
    failed = {}
    unmapped = []

    def fn_at(line):
        for name in g.order:
            fi = g.fns[name]
            if fi.is_fn and fi.gen_lines[0] <= line <= fi.gen_lines[1]:
                return fi
        return None

    def any_fn_at(line):
        best = None
        for (name, a, b, has_req, body_line) in g.all_fn_regions:
            if a <= line <= b and (best is None or a >= best[1]):
                best = (name, a, b, has_req, body_line)
        return best

    def label_at(fi, line):
        lab = None
        for ln, l in fi.label_lines:
            if ln <= line:
                lab = (ln, l)
        return lab

    for d in res.errors:
        msg = d['message']
        prim = [s for s in d['spans'] if s[2]]
        sec = [s for s in d['spans'] if not s[2]]
        oid = None
        site = None
        fi = None
        if 'postcondition' in msg:
            clause = next((s for s in d['spans'] if 'failed this postcondition' in s[3]), prim[0] if prim else None)
            exits = [s for s in d['spans'] if s is not clause]
            # the function is where the exit span lies
            for s in exits + ([clause] if clause else []):
                fi = fn_at(s[0])
                if fi:
                    break
            if fi and clause:
                site = g.repo_loc(exits[0][0]) if exits else None
                cfi = fn_at(clause[0])
                if cfi is fi and g.origin[clause[0] - 1][0] == 'contract':
                    lab = label_at(fi, clause[0])
                    sect = g.origin[clause[0] - 1][2]
                    if lab:
                        if sect.startswith('loop'):
                            oid = f'{g.unit}::{fi.name}::{sect.replace(" ", "")}:post:{lab[1]}'
                        else:
                            oid = f'{g.unit}::{fi.name}::post:{lab[1]}'
                if oid is None and (clause[0] == 0 or (getattr(fi, 'traitpost', False) and (g.origin[clause[0] - 1][0] == 'tmpl' or cfi is not fi))):
                    oid = f'{g.unit}::{fi.name}::post:trait'
                if oid is None and 'canary__' in (g.lines[clause[0] - 1] if clause else ''):
                    oid = f'{g.unit}::{fi.name}::canary'
                if oid is None:
                    oid = f'{g.unit}::{fi.name}::post:<unlabelled:{g.lines[clause[0]-1].strip()[:60]}>'
        elif 'precondition' in msg:
            call = prim[0] if prim else None
            clause = next((s for s in d['spans'] if 'failed precondition' in s[3]), None)
            if call:
                fi = fn_at(call[0])
            if fi and call:
                site = g.repo_loc(call[0])
                callee = None
                if clause:
                    reg = any_fn_at(clause[0])
                    if reg:
                        callee = reg[0]
                if callee:
                    # which call of callee: the call token of that name inside the primary span, last one before span end
                    cands = [c for c in fi.calls if c[2] == callee and call[4] is not None and call[4] <= c[1] < call[5]]
                    if not cands:
                        cands = [c for c in fi.calls if c[2] == callee and call[0] <= c[0] <= call[1]]
                    if cands:
                        c = cands[-1]
                        oid = f'{g.unit}::{fi.name}::pre@{callee}#{c[3]}'
                if oid is None:
                    oid = f'{g.unit}::{fi.name}::safe'
        elif 'invariant' in msg:
            # the clause is the span inside a contract region (primary for entry/end-of-body failures, secondary for `continue`/`break`)
            clause = next((sp for sp in d['spans'] if 'failed this invariant' in sp[3]), None)
            if clause is None:
                clause = next((sp for sp in d['spans'] if sp[0] and g.origin[sp[0] - 1][0] == 'contract'), prim[0] if prim else None)
            other = [sp for sp in d['spans'] if sp is not clause]
            if clause:
                fi = fn_at(clause[0])
            if fi and clause and g.origin[clause[0] - 1][0] == 'contract':
                lab = label_at(fi, clause[0])
                sect = g.origin[clause[0] - 1][2]
                if lab:
                    oid = f'{g.unit}::{fi.name}::{sect.replace(" ", "")}:inv:{lab[1]}'
                site = g.repo_loc(other[0][0]) if other and other[0][0] else msg
            if fi and oid is None:
                oid = f'{g.unit}::{fi.name}::safe'
        else:
            s = prim[0] if prim else (d['spans'][0] if d['spans'] else None)
            if s:
                fi = fn_at(s[0])
                if fi:
                    oid = f'{g.unit}::{fi.name}::safe'
                    site = g.repo_loc(s[0])
                    if 'assertion' in msg and s[0] and g.origin[s[0] - 1][0] == 'contract' and g.origin[s[0] - 1][2] == 'proof':
                        lab = label_at(fi, s[0])
                        # only a label that sits inside the same proof block (directly above the assert) names the obligation
                        if lab and all(g.origin[k - 1][0] == 'contract' and g.origin[k - 1][2] == 'proof' for k in range(lab[0], s[0] + 1)):
                            oid = f'{g.unit}::{fi.name}::assert:{lab[1]}'
        if oid is None:
            unmapped.append(d)
            continue
        failed.setdefault(oid, []).append({'message': msg, 'site': site, 'rendered': d['rendered']})
    return failed, unmapped
