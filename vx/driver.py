"""Command line driver for ./check"""
import json
import os
import sys
import time
import concurrent.futures as cf

from . import run as R

ROOT = R.ROOT
BASELINE = os.path.join(ROOT, 'baseline', 'obligations.json')
KNOWN = os.path.join(ROOT, 'known_findings.json')
EVID = os.path.join(ROOT, 'evidence')
REPLAY = os.path.join(ROOT, 'build', 'replay')

GLOBAL_ASSUMPTIONS = [
    'Verus 0.2026.09.13 + bundled Z3 and vstd as shipped; Kani 0.68 + CBMC 6.11 (tool soundness)',
    'vx extraction rewrites R1-R15 (DESIGN.md 4.1) preserve the behaviour the contracts talk about; each application is counted under coverage.rewrites',
    'sequential execution of each verified entry point: no interference from other threads (the engine does not guarantee this; concurrency is out of reach of this technique)',
    'termination is not proved (partial correctness)',
    'every item listed under coverage.trusted_base is an assumed contract of a dependency or primitive, not a proved one',
]


def _units_for(prop, index):
    return [u for u, meta in index.items() if prop in meta.get('props', [])]


def _run_units(units, index, seed, tier):
    runs = []
    with cf.ThreadPoolExecutor(max_workers=8) as ex:
        futs = {}
        for u in units:
            meta = index[u]
            if meta.get('engine', 'verus') == 'verus':
                futs[u] = ex.submit(R.run_unit, u, seed, True, meta.get('rlimit'))
            elif meta['engine'] == 'kani':
                from . import kani as K
                futs[u] = ex.submit(K.run_unit, u, meta, seed, tier)
            elif meta['engine'] == 'bounded':
                from . import bounded as B
                futs[u] = ex.submit(B.run_unit, u, meta, seed, tier)
        for u in units:
            runs.append(futs[u].result())
    return runs


def _write_replay(prop, o, d, u, extra=None):
    os.makedirs(REPLAY, exist_ok=True)
    safe = o.id.replace('::', '__').replace('/', '_').replace('<', '').replace('>', '').replace(' ', '_').replace(':', '_')[:150]
    path = os.path.join(REPLAY, f'{prop}__{safe}.json')
    rec = {'property': prop, 'obligation': o.id, 'unit': u.unit, 'kind': o.kind, 'function': o.fn,
           'site': d.get('site'), 'message': d.get('message'), 'verifier_output': d.get('rendered'),
           'counterexample': d.get('counterexample'), 'replayed_on_real_code': d.get('replayed', False),
           'replay_test': d.get('replay_test'), 'replay_result': d.get('replay_result')}
    if extra:
        rec.update(extra)
    with open(path, 'w') as f:
        json.dump(rec, f, indent=1)
    return path


def check_property(prop, tier, seed):
    t0 = time.time()
    index = R.unit_index()
    units = _units_for(prop, index)
    if not units:
        print(f'UNDECIDED property={prop}: no unit serves this property')
        return 2
    baseline = R.load_json(BASELINE, {})
    known_all = R.load_json(KNOWN, {'findings': [], 'fixed': []})
    known = [k for k in known_all.get('findings', []) if k.get('property') == prop or prop in k.get('properties', [])]
    if tier == 'thorough':
        os.environ['VERIF_NOCACHE'] = '1'
    runs = _run_units(units, index, seed, tier)
    # residue guard (vx/residue.py): did code the property depends on change OUTSIDE every function under contract?
    from . import residue as RS
    if os.environ.get('VERIF_REBASE_RESIDUE'):
        RS.rebaseline(prop, runs)
    res_changed, _res_cur = RS.changed(prop, runs)
    census = None
    if prop == 'C02':
        # census guard (vx/census.py): no task-state write outside the functions under contract / the allow-list
        from . import census as CS
        census = CS.scan(runs)
    extra_seed_runs = []
    if tier == 'thorough':
        # two further SMT seeds: an obligation that flips between seeds is unstable -> UNDECIDED
        for s in (seed + 1, seed + 2):
            extra_seed_runs.append(_run_units([u for u in units if index[u].get('engine', 'verus') == 'verus'], index, s, tier))
    c = R.classify(runs, prop, baseline, known, known_all.get('findings', []))
    unstable = []
    for er in extra_seed_runs:
        c2 = R.classify(er, prop, baseline, known, known_all.get('findings', []))
        a = set(o.id for o, _, _ in c['violations']) | set(o.id for o, _, _ in c['unbaselined'])
        b = set(o.id for o, _, _ in c2['violations']) | set(o.id for o, _, _ in c2['unbaselined'])
        for oid in a ^ b:
            unstable.append(oid)
    for oid in sorted(set(unstable)):
        c['undecided'].append(f'obligation {oid} is unstable across SMT seeds')
    # ---- bounded stand-ins: when a unit could not be decided (the code changed in a way the extraction / contracts do not
    #      follow), the unit's registered real-code drivers are run on a scratch copy; a failing driver demonstrates a violation on
    #      the real code (labelled bounded -- found by execution over a stated small domain, not by proof).  In the thorough tier
    #      the drivers run always.
    fallback_hits = []
    fallback_runs = []
    driver_known = []
    # the driver that demonstrates an open known finding of this property runs on EVERY run (also in the quick tier), so that the
    # KNOWN-FINDING line is printed only while the history still fails, and any OTHER failing line of that driver is a violation
    finding_drivers = set(k['driver'] for k in known if k.get('status', 'open') == 'open' and k.get('driver'))
    ran = set()
    for u in runs:
        meta = index.get(u.unit, {})
        fbs = meta.get('fallback', [])
        if not fbs:
            continue
        general = bool(u.undecided or tier == 'thorough' or res_changed or (census is not None and census[2]))
        from . import scratch
        for drv in fbs:
            if prop not in drv.get('props', [prop]):
                continue
            if not (general or drv['test'] in finding_drivers):
                continue
            if drv['test'] in ran:
                continue      # one driver may be registered under several units of the property: run it once per check
            ran.add(drv['test'])
            ok, info = scratch.run_replay_driver(drv)
            fallback_runs.append({'unit': u.unit, 'driver': drv['test'], 'bound': drv.get('bound', ''), 'passed': ok, 'wall_s': info.get('wall_s')})
            if ok is False:
                # failing histories that are listed as open known findings (known_findings.json `driver_lines`) are reported as such;
                # any other failing line of the driver is a violation
                lines = info.get('failing_input') or []
                kn_hit, rest = [], []
                for ln in lines:
                    m = [k for k in known if k.get('status', 'open') == 'open' and any(pat in ln for pat in k.get('driver_lines', []))]
                    if m:
                        kn_hit.append((ln, m[0]))
                    else:
                        rest.append(ln)
                for ln, k in kn_hit:
                    driver_known.append((drv, ln, k))
                fallback_runs[-1]['known_finding_lines'] = [ln for ln, _ in kn_hit]
                if rest or not lines:
                    info = dict(info, failing_input=rest or lines)
                    fallback_hits.append((u, drv, info))
                else:
                    fallback_runs[-1]['passed'] = 'only listed known findings failed'
    # ---- replay search for violations (real code)
    violation_lines = []
    for u, drv, info in fallback_hits:
        o = R.Obligation(f'{u.unit}::bounded::{drv["test"]}', 'bounded', drv['test'], {prop}, drv.get('bound', ''))
        d = {'message': 'bounded stand-in failed on the real code (unit undecided: ' + '; '.join(u.undecided)[:300] + ')',
             'site': None, 'rendered': info.get('tail', ''), 'replayed': True, 'counterexample': info.get('failing_input'),
             'replay_test': drv, 'replay_result': {k: v for k, v in info.items() if k != 'tail'}}
        path = _write_replay(prop, o, d, u)
        violation_lines.append(f'VIOLATION property={prop} replay={path}')
    reported = set()
    for o, d, u in c['violations']:
        if o.id in reported:
            continue      # one obligation may fail at several return sites: one report, one replay
        reported.add(o.id)
        if hasattr(u, 'replay_violation'):
            u.replay_violation(o, d)
        else:
            from . import replay as RP
            RP.try_replay(prop, o, d, u)
        path = _write_replay(prop, o, d, u)
        tail = '' if d.get('replayed') else ' no-failing-input-found'
        violation_lines.append(f'VIOLATION property={prop} replay={path}{tail}')
    # ---- report
    known_lines = []
    seen = set()
    for o, d, k in c['known']:
        key = (o.id, k.get('what'))
        if key in seen:
            continue
        seen.add(key)
        known_lines.append(f'KNOWN-FINDING: property={prop} {k.get("what")} [{o.id}]')
    for drv, ln, k in driver_known:
        if any(sk[1] == k.get('what') for sk in seen):
            continue
        seen.add(('driver', k.get('what')))
        known_lines.append(f'KNOWN-FINDING: property={prop} {k.get("what")} [bounded driver {drv["test"]}: {ln[:160]}]')
    if census is not None:
        for site in census[2]:
            c['undecided'].append(f'census: a task-state write outside every function under contract: {site}')
    for o, d, u in c['unbaselined']:
        c['undecided'].append(f'{o.id} fails and is neither in the baseline nor a known finding: {d["message"]} at {d.get("site")}')
    wall = time.time() - t0
    write_evidence(prop, tier, seed, runs, c, wall, index, violation_lines, fallback_runs, res_changed, census)
    if res_changed:
        print(f'NOTE property={prop}: code outside the functions under contract changed in {", ".join(res_changed)}; '
              f'the bounded real-code drivers of this property were run as well ({len(fallback_runs)} driver run(s))')
    for ln in known_lines:
        print(ln)
    for r in c['undecided']:
        print(f'UNDECIDED property={prop}: {r}')
    for ln in violation_lines:
        print(ln)
    n_ob = len(c['obligations'])
    n_known = len(set(o.id for o, _, _ in c['known'])) + len(set(k.get('what') for _, _, k in driver_known))
    print(f'property={prop} tier={tier} units={",".join(units)} obligations={n_ob} discharged={len(c["discharged"])} '
          f'known_findings={n_known} violations={len(violation_lines)} undecided={len(c["undecided"])} wall_s={wall:.1f}')
    if violation_lines:
        return 1
    if c['undecided']:
        return 2
    return 0


def write_evidence(prop, tier, seed, runs, c, wall, index, violation_lines, fallback_runs=(), res_changed=(), census=None):
    os.makedirs(EVID, exist_ok=True)
    known_ids = sorted(set(o.id for o, _, _ in c['known']))
    obs = [o for o in c['obligations'] if o.id not in known_ids]
    dis = [o for o in c['discharged'] if o.id not in known_ids]
    fns = []
    backends = {}
    solver_ms = {}
    rewrites = {}
    trusted = set()
    canaries = {'generated': 0, 'failed_as_required': 0}
    cmds = []
    bounded = []
    not_under = []
    for u in runs:
        meta = index.get(u.unit, {})
        eng = meta.get('engine', 'verus')
        for t in u.trusted:
            trusted.add(f'[{u.unit}] {t}')
        if getattr(u, 'bounded', None):
            bounded.extend(u.bounded)
        for nu in meta.get('not_under_contract', []):
            not_under.append(f'[{u.unit}] {nu}')
        if eng == 'verus' and u.g is not None:
            for n in u.g.order:
                fi = u.g.fns[n]
                if fi.is_fn and any(prop in o.props for o in fi.obligations):
                    rec = fi.slice.report()
                    rec['function'] = n
                    rec['rewrites'] = {k: v for k, v in fi.rewrites.items() if v}
                    fns.append(rec)
            for k, v in u.g.rewrite_counts.items():
                rewrites[k] = rewrites.get(k, 0) + v
            if u.canary:
                canaries['generated'] += u.canary['generated']
                canaries['failed_as_required'] += u.canary['failed_as_required']
            if u.res is not None:
                cmds.append(u.res.cmd)
                solver_ms[u.unit] = {'smt_ms': u.res.smt_ms, 'total_ms': u.res.total_ms, 'wall_s': round(u.wall_s, 2),
                                     'verus_functions_verified': u.res.verified,
                                     'slowest': sorted(((k, v['time_micros'] // 1000) for k, v in u.res.func_stats.items()), key=lambda x: -x[1])[:5]}
                if getattr(u.res, 'retries', None):
                    solver_ms[u.unit]['isolated_retries_after_rlimit'] = u.res.retries
        else:
            for rec in getattr(u, 'functions', []):
                fns.append(rec)
            cmds.extend(getattr(u, 'cmds', []))
            solver_ms[u.unit] = {'wall_s': round(u.wall_s, 2), **getattr(u, 'timing', {})}
        backends[u.unit] = meta.get('backend', 'verus/z3' if eng == 'verus' else 'kani/cbmc')
    samples = [o.rec() for o in dis[:4]] + [dict(o.rec(), status='known-finding') for o in c['obligations'] if o.id in known_ids][:2]
    per_backend = {}
    for o in dis:
        b = backends.get(o.id.split('::')[0], '?')
        per_backend[b] = per_backend.get(b, 0) + 1
    ev = {
        'property_id': prop, 'tier': tier, 'seed': seed, 'level': 'proof',
        'coverage': {
            'obligations': len(obs), 'discharged': len(dis),
            'checker_cmd': ' ; '.join(cmds) if cmds else 'none',
            'trusted_base': sorted(trusted),
            'samples': samples,
            'known_finding_obligations': known_ids,
            'functions_under_contract': fns,
            'discharged_by_backend': per_backend,
            'backends': backends,
            'solver': solver_ms,
            'bounded': bounded + [dict(fr, label='bounded (never counted as discharged)') for fr in fallback_runs],
            'not_under_contract': not_under,
            'residue_guard': {'files_changed_outside_the_functions_under_contract': list(res_changed),
                              'meaning': 'anchor files minus the slices under contract, comments and whitespace dropped, hashed and compared with baseline/residue.json; a difference makes the check run the bounded drivers too'},
            'rewrites': rewrites,
            'canaries': canaries,
            'undecided': c['undecided'],
            'obligation_ids': [o.id for o in obs],
            'explanation': 'obligation = one labelled ensures/invariant clause, one call-site precondition of a contracted callee, '
                           'or the implicit safety obligations of one function, generated from the text of /repo extracted on this run; '
                           'open known findings are excluded from both counts and listed under known_finding_obligations; in a function '
                           'with an open known finding the other clauses are discharged under Verus\'s multiple-errors semantics (the failing clause is assumed after being reported)',
        },
        'assumptions': GLOBAL_ASSUMPTIONS + [f'[{u.unit}] {a}' for u in runs for a in index.get(u.unit, {}).get('assumptions', [])],
        'wall_s': round(wall, 2),
        'violations': len(violation_lines),
    }
    if census is not None:
        ev['coverage']['census_of_state_writes'] = {'call_sites': census[0], 'inside_functions_under_contract': census[1],
                                                    'on_the_allow_list': census[0] - census[1] - len(census[2]), 'uncovered': census[2]}
    with open(os.path.join(EVID, f'{prop}.json'), 'w') as f:
        json.dump(ev, f, indent=1)


def dev_unit(unit, rebaseline, seed=0):
    index = R.unit_index()
    runs = _run_units([unit], index, seed, 'quick')
    u = runs[0]
    print(f'== {unit} wall={u.wall_s:.1f}s')
    for r in u.undecided:
        print('  UNDECIDED:', r)
    for o in u.obligations:
        st = 'FAIL' if o.id in u.failed else ('??' if getattr(u, 'invalid', False) else 'ok')
        print(f'  [{st}] {o.id}  {sorted(o.props)}')
        for d in u.failed.get(o.id, []):
            print(f'         {d["message"]} @ {d.get("site")}')
    extra = [k for k in u.failed if k not in set(o.id for o in u.obligations)]
    for k in extra:
        print('  [FAIL, not an indexed obligation]', k, u.failed[k][0]['message'], u.failed[k][0].get('site'))
    if getattr(u, 'canary', None):
        print('  canary:', u.canary)
    if getattr(u, 'res', None) is not None:
        print(f'  verus: verified={u.res.verified} errors={u.res.error_count} smt_ms={u.res.smt_ms} cached={getattr(u.res, "cached", False)}')
        for rt in getattr(u.res, 'retries', None) or []:
            print('  retry (isolated, after rlimit):', rt)
    if rebaseline:
        base = R.load_json(BASELINE, {})
        known_all = R.load_json(KNOWN, {'findings': []})
        kids = set(k['obligation'] for k in known_all.get('findings', []))
        failed_fns = set(k.rsplit('::', 1)[0] for k in u.failed)
        base[unit] = {o.id: sorted(o.props) for o in u.obligations if o.id not in u.failed and o.id not in kids}
        os.makedirs(os.path.dirname(BASELINE), exist_ok=True)
        with open(BASELINE, 'w') as f:
            json.dump(base, f, indent=1, sort_keys=True)
        print(f'  baseline[{unit}] = {len(base[unit])} obligations')
        lp = os.path.join(ROOT, 'baseline', 'loops.json')
        loops = R.load_json(lp, {})
        loops[unit] = R.loops_of(u)
        with open(lp, 'w') as f:
            json.dump(loops, f, indent=1, sort_keys=True)
    return 0 if not u.undecided and not u.failed else 1


def main(argv):
    tier = os.environ.get('VERIF_TIER', 'quick')
    seed = int(os.environ.get('VERIF_SEED', '0') or 0)
    args = list(argv)
    if '--tier' in args:
        i = args.index('--tier')
        tier = args[i + 1]
        del args[i:i + 2]
    rebaseline = '--rebaseline' in args
    if rebaseline:
        args.remove('--rebaseline')
    if not args:
        print(__doc__)
        return 2
    if args[0] == '--replay':
        from . import replay as RP
        return RP.replay_file(args[1])
    if args[0] == '--unit':
        return dev_unit(args[1], rebaseline, seed)
    if args[0] == '--rebaseline-residue':
        os.environ['VERIF_REBASE_RESIDUE'] = '1'
        man = json.load(open(os.path.join(ROOT, 'MANIFEST.json')))
        for c in man['checks']:
            rc = check_property(c['property_id'], 'quick', seed)
            print(c['property_id'], 'exit', rc)
        return 0
    if args[0] == '--all':
        rc = 0
        for u in R.unit_index():
            rc |= dev_unit(u, rebaseline, seed)
        return rc
    return check_property(args[0], tier, seed)
