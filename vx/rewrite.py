"""Token-pattern rewriting for vx.

A pattern is Rust-ish text with metavariables:
  $X        balanced token run, >=1 token, no top-level `;` or `,`
  $X:args   balanced token run, may be empty, no top-level `;`
  $X:id     one identifier
  $X:lit    one literal (string / number / char)
  $X:chain  a postfix expression chain (receiver): [&|*|&mut]* primary (.id | ::id | ::<..> | (..) | [..] | ?)*
  $X:block  one `{ ... }` group
  $X:stmts  balanced token run, may be empty, may contain `;` and `,`
Matching is on significant tokens; replacement text is a template in which $X
is replaced by the *source text* of the matched run.  Every rewrite keeps the
number of newlines of the region it replaces (so repo line numbers survive).
"""
import re
from .lexer import lex, sig, match_close, OPEN, CLOSE
from .extract import AnchorError

MV = re.compile(r'\$([A-Za-z_][A-Za-z0-9_]*)(?::(args|id|lit|chain|block|stmts))?')


class PTok:
    def __init__(self, text=None, mv=None, kind=None):
        self.text, self.mv, self.kind = text, mv, kind

    def __repr__(self):
        return f'${self.mv}:{self.kind}' if self.mv else repr(self.text)


def parse_pattern(p):
    out = []
    pos = 0
    for m in MV.finditer(p):
        for t in sig(lex(p[pos:m.start()])):
            out.append(PTok(text=t.text))
        out.append(PTok(mv=m.group(1), kind=m.group(2) or 'run'))
        pos = m.end()
    for t in sig(lex(p[pos:])):
        out.append(PTok(text=t.text))
    return out


def _chain_ends(st, i, hi):
    """yield possible end indices (exclusive) of a postfix chain starting at st[i]."""
    j = i
    while j < hi and st[j].kind == 'p' and st[j].text in ('&', '*'):
        j += 1
        if j < hi and st[j].kind == 'id' and st[j].text == 'mut':
            j += 1
    if j >= hi:
        return
    t = st[j]
    if t.kind == 'id' or t.kind in ('str', 'num'):
        j += 1
    elif t.kind == 'p' and t.text in ('(', '['):
        j = match_close(st, j) + 1
    else:
        return
    yield j
    while j < hi:
        t = st[j]
        if t.kind == 'p' and t.text == '.' and j + 1 < hi and st[j + 1].kind in ('id', 'num'):
            j += 2
        elif t.kind == 'p' and t.text == ':' and j + 2 < hi and st[j + 1].text == ':' and st[j + 2].kind == 'id':
            j += 3
        elif t.kind == 'p' and t.text == ':' and j + 2 < hi and st[j + 1].text == ':' and st[j + 2].text == '<':
            # turbofish
            depth, k = 0, j + 2
            while k < hi:
                if st[k].text == '<':
                    depth += 1
                elif st[k].text == '>':
                    depth -= 1
                    if depth == 0:
                        break
                k += 1
            j = k + 1
        elif t.kind == 'p' and t.text in ('(', '['):
            j = match_close(st, j) + 1
        elif t.kind == 'p' and t.text == '?':
            j += 1
        else:
            return
        yield j


def _match(st, i, hi, pat, k, env):
    if k == len(pat):
        return i
    if i > hi:
        return None
    p = pat[k]
    if p.mv is None:
        if i < hi and st[i].text == p.text:
            return _match(st, i + 1, hi, pat, k + 1, env)
        return None
    kind = p.kind
    if kind == 'id':
        if i < hi and st[i].kind == 'id':
            if p.mv in env and _txt(st, env[p.mv]) != st[i].text:
                return None
            env2 = dict(env)
            env2[p.mv] = (i, i + 1)
            r = _match(st, i + 1, hi, pat, k + 1, env2)
            if r is not None:
                env.update(env2)
            return r
        return None
    if kind == 'lit':
        if i < hi and st[i].kind in ('str', 'num', 'char'):
            env[p.mv] = (i, i + 1)
            return _match(st, i + 1, hi, pat, k + 1, env)
        return None
    if kind == 'block':
        if i < hi and st[i].kind == 'p' and st[i].text == '{':
            j = match_close(st, i) + 1
            env[p.mv] = (i, j)
            return _match(st, j, hi, pat, k + 1, env)
        return None
    if kind == 'chain':
        for j in _chain_ends(st, i, hi):
            env2 = dict(env)
            env2[p.mv] = (i, j)
            r = _match(st, j, hi, pat, k + 1, env2)
            if r is not None:
                env.update(env2)
                return r
        return None
    # run / args / stmts
    j = i
    if kind in ('args', 'stmts'):
        env2 = dict(env)
        env2[p.mv] = (i, i)
        r = _match(st, i, hi, pat, k + 1, env2)
        if r is not None:
            env.update(env2)
            return r
    while j < hi:
        t = st[j]
        if t.kind == 'p' and t.text in OPEN:
            j = match_close(st, j) + 1
        elif t.kind == 'p' and t.text in CLOSE:
            return None
        elif t.kind == 'p' and t.text == ';' and kind != 'stmts':
            return None
        elif t.kind == 'p' and t.text == ',' and kind == 'run':
            return None
        else:
            j += 1
        env2 = dict(env)
        env2[p.mv] = (i, j)
        r = _match(st, j, hi, pat, k + 1, env2)
        if r is not None:
            env.update(env2)
            return r
    return None


def _txt(st, rng):
    a, b = rng
    if a == b:
        return ''
    return ' '.join(t.text for t in st[a:b])


def _srctext(src, st, rng):
    a, b = rng
    if a == b:
        return ''
    return src[st[a].start:st[b - 1].end]


def find_matches(src, pattern):
    """all non-overlapping matches of pattern in src; returns list of (byte_start, byte_end, env{name: text})"""
    pat = parse_pattern(pattern) if isinstance(pattern, str) else pattern
    st = sig(lex(src))
    out = []
    i = 0
    n = len(st)
    lead_chain = pat and pat[0].mv and pat[0].kind == 'chain'
    while i < n:
        if lead_chain and i > 0:
            prev = st[i - 1]
            # a receiver chain must start at the beginning of an expression
            if prev.kind in ('id', 'num', 'str') and prev.text not in ('return', 'in', 'if', 'while', 'match', 'let', 'else', 'mut', 'move', 'break'):
                i += 1
                continue
            if prev.kind == 'p' and prev.text in ('.', ')', ']', '?'):
                i += 1
                continue
            if prev.kind == 'p' and prev.text == ':' and i > 1 and st[i - 2].text == ':':
                i += 1
                continue
        env = {}
        r = _match(st, i, n, pat, 0, env)
        if r is not None and r > i:
            out.append((st[i].start, st[r - 1].end, {k: _srctext(src, st, v) for k, v in env.items()}))
            i = r
        else:
            i += 1
    return out


def _keep_newlines(old, new):
    k_old, k_new = old.count('\n'), new.count('\n')
    if k_new > k_old:
        new = re.sub(r'\s*\n\s*', ' ', new)
        k_new = 0
    return new + '\n' * (k_old - k_new)


def apply_pattern(src, pattern, template, guard=None):
    """rewrite every match; returns (new_src, count).  guard(env) -> error string or None."""
    ms = find_matches(src, pattern)
    if not ms:
        return src, 0
    out, pos = [], 0
    for (a, b, env) in ms:
        if guard:
            err = guard(env)
            if err:
                raise AnchorError(err)
        rep = MV.sub(lambda m: env.get(m.group(1), m.group(0)), template)
        out.append(src[pos:a])
        out.append(_keep_newlines(src[a:b], rep))
        pos = b
    out.append(src[pos:])
    return ''.join(out), len(ms)


# ---------------------------------------------------------------- built-in rewrites

LOG_MACROS = ('debug', 'info', 'error', 'trace', 'warn', 'println', 'eprintln')  # statement-position logging macros
EFFECT_CALL = re.compile(r'\b(set_|push|insert|remove|delete|take|update|emit|send|spawn|exec|run|next|create|upsert|do_|clear|drain|pop|append|extend|retain|write|lock|unwrap)[A-Za-z0-9_]*\s*\(')


def _log_guard(env):
    a = env.get('A', '')
    # the guard is about effects of the ARGUMENT expressions: text inside string literals (the format string) is not code
    code = ''.join(t.text if t.kind != 'str' else '""' for t in lex(a))
    m = EFFECT_CALL.search(code)
    if m:
        return f'R2: log argument contains a call that is not a getter: `{m.group(0)}` in `{a[:80]}`'
    return None


def r2_logging(src):
    n = 0
    for mac in LOG_MACROS:
        src, k = apply_pattern(src, f'tracing :: {mac} ! ( $A:args ) ;', '', _log_guard)
        n += k
        src, k = apply_pattern(src, f'{mac} ! ( $A:args ) ;', '', _log_guard)
        n += k
    return src, n


def r3_format(src):
    return apply_pattern(src, 'format ! ( $A:args )', 'fmt_opaque()')


ATTR_DROP = ('serde', 'strum', 'error', 'instrument', 'allow', 'default', 'doc', 'cfg_attr', 'inline', 'must_use', 'iden')
DERIVE_DROP = {'Serialize', 'Deserialize', 'Debug', 'Default', 'Display', 'EnumString', 'AsRefStr', 'EnumIter', 'IntoStaticStr',
               'Error', 'Hash', 'PartialOrd', 'Ord', 'Serialize_repr', 'Deserialize_repr', 'Iden'}


def r1_attrs(src, add_structural=False, keep_derive=(), drop_extra=()):
    """drop serde/strum/... attributes, filter derive lists; returns (src, count)"""
    st = sig(lex(src))
    edits = []
    i = 0
    n = 0
    while i < len(st):
        if st[i].kind == 'p' and st[i].text == '#' and i + 1 < len(st) and st[i + 1].text == '[':
            j = match_close(st, i + 1)
            name = st[i + 2].text
            a, b = st[i].start, st[j].end
            if name == 'derive':
                inner = [t for t in st[i + 4:j - 1] if t.kind == 'id']
                # paths like strum::Display -> last ident decides
                segs = src[st[i + 4].start:st[j - 1].start].split(',') if j - 1 > i + 4 else []
                kept = []
                for s in segs:
                    s2 = s.strip()
                    if not s2:
                        continue
                    last = s2.split('::')[-1].strip()
                    if (last in DERIVE_DROP or last in drop_extra) and last not in keep_derive:
                        continue
                    kept.append(s2)
                if add_structural and 'PartialEq' in kept:
                    for extra in ('Eq', 'Structural'):
                        if extra not in kept:
                            kept.append(extra)
                rep = ('#[derive(' + ', '.join(kept) + ')]') if kept else ''
                if rep != src[a:b]:
                    edits.append((a, b, rep))
                    n += 1
            elif name in ATTR_DROP or (name == 'strum') or src[st[i + 2].start:st[j].start].startswith(('serde', 'strum')):
                edits.append((a, b, ''))
                n += 1
            i = j + 1
            continue
        i += 1
    out, pos = [], 0
    for a, b, rep in edits:
        out.append(src[pos:a])
        out.append(_keep_newlines(src[a:b], rep))
        pos = b
    out.append(src[pos:])
    return ''.join(out), n


def r13_const_str(src):
    return apply_pattern(src, 'const $N:id : & str', 'const $N: &\'static str')


def append_ghost_arg(src, methods, ghost_arg):
    """R4 (call side): append ghost_arg to every call `.m(...)` / `m(...)` / `T::m(...)` with m in methods."""
    st = sig(lex(src))
    edits = []
    def _open_of(ci):
        depth = 0
        k = ci
        while k >= 0:
            if st[k].kind == 'p' and st[k].text in CLOSE:
                depth += 1
            elif st[k].kind == 'p' and st[k].text in OPEN:
                depth -= 1
                if depth == 0:
                    return k
            k -= 1
        return -1
    for i, t in enumerate(st):
        if not (t.kind == 'id' and t.text in methods):
            continue
        # a method on the VALUE returned by `.state(..)` is a TaskState method (is_ready, is_running, ...), never a heap method
        if i >= 3 and st[i - 1].text == '.' and st[i - 2].text == ')':
            oi = _open_of(i - 2)
            if oi > 0 and st[oi - 1].kind == 'id' and st[oi - 1].text == 'state':
                continue
        po = i + 1
        # turbofish: name::<T>(...)
        if po + 2 < len(st) and st[po].text == ':' and st[po + 1].text == ':' and st[po + 2].text == '<':
            depth, k = 0, po + 2
            while k < len(st):
                if st[k].text == '<':
                    depth += 1
                elif st[k].text == '>' and st[k - 1].text != '-':
                    depth -= 1
                    if depth == 0:
                        break
                elif st[k].text in ('(', '['):
                    k = match_close(st, k)
                k += 1
            po = k + 1
        if po < len(st) and st[po].kind == 'p' and st[po].text == '(':
            if i > 0 and st[i - 1].kind == 'id' and st[i - 1].text == 'fn':
                continue
            j = match_close(st, po)
            empty = (j == po + 1)
            pos = st[j].start
            # trailing comma?
            if not empty and st[j - 1].kind == 'p' and st[j - 1].text == ',':
                edits.append((pos, pos, ' ' + ghost_arg))
            else:
                edits.append((pos, pos, ghost_arg if empty else ', ' + ghost_arg))
    out, pos = [], 0
    for a, b, rep in sorted(edits):
        out.append(src[pos:a])
        out.append(rep)
        pos = b
    out.append(src[pos:])
    return ''.join(out), len(edits)


def r17_pub_fields(src):
    """R17: visibility widening on an extracted struct: every named field becomes `pub` (no run-time effect;
    Verus forbids contracts of pub functions from mentioning non-pub fields)."""
    st = sig(lex(src))
    # find the struct body
    i = 0
    while i < len(st) and not (st[i].kind == 'id' and st[i].text == 'struct'):
        i += 1
    if i >= len(st):
        return src, 0
    j = i
    while j < len(st) and not (st[j].kind == 'p' and st[j].text in ('{', ';', '(')):
        j += 1
    if j >= len(st) or st[j].text != '{':
        return src, 0
    end = match_close(st, j)
    edits = []
    k = j + 1
    while k < end:
        # skip attributes
        while st[k].kind == 'p' and st[k].text == '#':
            k = match_close(st, k + 1) + 1
        if k >= end:
            break
        start = k
        if st[k].kind == 'id' and st[k].text == 'pub':
            if st[k + 1].kind == 'p' and st[k + 1].text == '(':
                c = match_close(st, k + 1)
                edits.append((st[k].start, st[c].end, 'pub'))
        else:
            edits.append((st[k].start, st[k].start, 'pub '))
        # advance to the ',' that ends this field (depth 0, angle aware)
        depth = 0
        while k < end:
            t = st[k]
            if t.kind == 'p' and t.text in OPEN:
                k = match_close(st, k)
            elif t.kind == 'p' and t.text == '<':
                depth += 1
            elif t.kind == 'p' and t.text == '>' and not (st[k - 1].text == '-'):
                depth -= 1
            elif t.kind == 'p' and t.text == ',' and depth <= 0:
                break
            k += 1
        k += 1
    out, pos = [], 0
    for a, b, rep in edits:
        out.append(src[pos:a])
        out.append(rep)
        pos = b
    out.append(src[pos:])
    return ''.join(out), len(edits)


def r18_mut_self(src):
    """R18: `fn f(mut self, ..) BODY` -> `fn f(self, ..) { let mut self__ = self; BODY[self := self__] }` (Verus has no `mut self`)."""
    st = sig(lex(src))
    i = 0
    while i < len(st) and not (st[i].kind == 'id' and st[i].text == 'fn'):
        i += 1
    if i >= len(st):
        return src, 0
    j = i + 2
    while j < len(st) and st[j].text != '(':
        j += 1
    if j + 2 >= len(st) or not (st[j + 1].text == 'mut' and st[j + 2].text == 'self'):
        return src, 0
    pc = match_close(st, j)
    k = pc
    while k < len(st) and st[k].text != '{':
        k += 1
    if k >= len(st):
        return src, 0
    end = match_close(st, k)
    edits = [(st[j + 1].start, st[j + 2].start, '')]
    edits.append((st[k].end, st[k].end, ' let mut self__ = self;'))
    for t in st[k + 1:end]:
        if t.kind == 'id' and t.text == 'self':
            edits.append((t.start, t.end, 'self__'))
    out, pos = [], 0
    for a, b, rep in sorted(edits):
        out.append(src[pos:a])
        out.append(rep)
        pos = b
    out.append(src[pos:])
    return ''.join(out), 1


def r15_lower_for(src, body_open_byte=0):
    """R15 (with R12/R14 folded in): `for X in E.iter() BODY` / `for X in &E BODY`  ->
       `{ let __vK = &E; let mut __iK: usize = 0; while __iK < __vK.len() { let X = &__vK[__iK]; __iK = __iK + 1; BODY } }`
    K = ordinal of the loop among ALL loops of the function (source order).  Semantics preserving for iteration over a
    Vec/slice by reference (a temporary in E lives as long as the new block).  Returns (src, [K...] lowered)."""
    st = sig(lex(src))
    edits = []
    lowered = []
    k = 0
    for i, t in enumerate(st):
        if t.start <= body_open_byte:
            continue
        if not (t.kind == 'id' and t.text in ('for', 'while', 'loop')):
            continue
        if t.text == 'for' and i + 1 < len(st) and st[i + 1].text == '<':
            continue
        k += 1
        if t.text != 'for':
            continue
        # pattern: single identifier, or a parenthesised tuple pattern `(a, b)` (bound by reference, as the `for` does)
        if st[i + 1].kind == 'id' and st[i + 2].kind == 'id' and st[i + 2].text == 'in':
            x = st[i + 1].text
            j = i + 3
        elif st[i + 1].kind == 'p' and st[i + 1].text == '(':
            pc = match_close(st, i + 1)
            if not (pc + 1 < len(st) and st[pc + 1].kind == 'id' and st[pc + 1].text == 'in'):
                continue
            if any(u.kind == 'p' and u.text in ('&', '(') for u in st[i + 2:pc]) or any(u.text in ('mut', 'ref') for u in st[i + 2:pc]):
                continue
            x = src[st[i + 1].start:st[pc].end]
            j = pc + 2
        else:
            continue
        by_value = False
        e0 = j
        while j < len(st) and not (st[j].kind == 'p' and st[j].text == '{'):
            if st[j].kind == 'p' and st[j].text in ('(', '['):
                j = match_close(st, j)
            j += 1
        if j >= len(st):
            continue
        bo = j
        bc = match_close(st, bo)
        expr_toks = st[e0:bo]
        reverse = False
        if len(expr_toks) >= 8 and [u.text for u in expr_toks[-8:]] == ['.', 'iter', '(', ')', '.', 'rev', '(', ')']:
            # `for x in E.iter().rev()`: the same lowering, counting down
            e_text = src[expr_toks[0].start:expr_toks[-9].end]
            reverse = True
        elif len(expr_toks) >= 4 and [u.text for u in expr_toks[-4:]] == ['.', 'iter', '(', ')']:
            e_text = src[expr_toks[0].start:expr_toks[-5].end]
        elif expr_toks and expr_toks[0].kind == 'p' and expr_toks[0].text == '&' and not (len(expr_toks) > 1 and expr_toks[1].text == 'mut'):
            e_text = src[expr_toks[1].start:expr_toks[-1].end]
        elif expr_toks and not any(u.kind == 'p' and u.text == '.' and u.end < len(src) and src[u.end] == '.' for u in expr_toks):
            # plain `for x in E` over a Vec / &Vec (not a range `a..b`): iterate by reference over the value moved into a local (R19)
            e_text = src[expr_toks[0].start:expr_toks[-1].end]
            by_value = True
        else:
            continue
        hdr_old = src[t.start:st[bo].end]
        # (a leading empty statement keeps Verus from reading the new block as a clause of a loop that ends right before it)
        if reverse:
            hdr_new = (f'; {{ let __v{k} = &{e_text}; let mut __i{k}: usize = __v{k}.len(); while __i{k} > 0 {{'
                       f' __i{k} = __i{k} - 1; let {x} = &__v{k}[__i{k}];')
        else:
            hdr_new = (f'; {{ let __v{k} = {"" if by_value else "&"}{e_text}; let mut __i{k}: usize = 0; while __i{k} < __v{k}.len() {{'
                       f' let {x} = &__v{k}[__i{k}]; __i{k} = __i{k} + 1;')
        edits.append((t.start, st[bo].end, _keep_newlines(hdr_old, hdr_new)))
        edits.append((st[bc].end, st[bc].end, ' }'))
        lowered.append(k)
    out, pos = [], 0
    for a, b, rep in sorted(edits):
        out.append(src[pos:a])
        out.append(rep)
        pos = b
    out.append(src[pos:])
    return ''.join(out), lowered


def r23_iter_mut(src, body_open_byte=0):
    """R23: `for X in E.iter_mut() BODY`  (E a place expression: a path of fields)  ->
       `; { let mut __mK: usize = 0; while __mK < E.len() { let mut __xK = E[__mK].clone(); { let X = &mut __xK; BODY } E.set(__mK, __xK); __mK = __mK + 1; } }`
    K = ordinal of the loop among all loops of the function.  Element-wise copy-out / write-back: the same final vector as the
    in-place mutation provided Clone is a copy (stated for the model structs) and BODY leaves the loop only by running to its end or
    by leaving the function (`?` / `return`: the write-back of that element is then lost, so nothing may be claimed about the
    vector on those paths).  A BODY with `break` / `continue` is left untouched."""
    st = sig(lex(src))
    edits = []
    lowered = []
    k = 0
    for i, t in enumerate(st):
        if t.start <= body_open_byte:
            continue
        if not (t.kind == 'id' and t.text in ('for', 'while', 'loop')):
            continue
        if t.text == 'for' and i + 1 < len(st) and st[i + 1].text == '<':
            continue
        k += 1
        if t.text != 'for':
            continue
        if not (st[i + 1].kind == 'id' and st[i + 2].kind == 'id' and st[i + 2].text == 'in'):
            continue
        x = st[i + 1].text
        j = i + 3
        e0 = j
        while j < len(st) and not (st[j].kind == 'p' and st[j].text == '{'):
            if st[j].kind == 'p' and st[j].text in ('(', '['):
                j = match_close(st, j)
            j += 1
        if j >= len(st):
            continue
        bo = j
        bc = match_close(st, bo)
        expr_toks = st[e0:bo]
        if not (len(expr_toks) >= 5 and [u.text for u in expr_toks[-4:]] == ['.', 'iter_mut', '(', ')']):
            continue
        place = expr_toks[:-4]
        if not all((u.kind == 'id') or (u.kind == 'p' and u.text == '.') for u in place):
            continue
        # break / continue belonging to THIS loop (not to a nested loop) -> leave untouched
        depth_loops = []
        bad = False
        m = bo + 1
        while m < bc:
            u = st[m]
            if u.kind == 'id' and u.text in ('for', 'while', 'loop'):
                # skip the nested loop entirely
                n2 = m + 1
                while n2 < bc and not (st[n2].kind == 'p' and st[n2].text == '{'):
                    if st[n2].kind == 'p' and st[n2].text in ('(', '['):
                        n2 = match_close(st, n2)
                    n2 += 1
                m = match_close(st, n2) + 1
                continue
            if u.kind == 'id' and u.text in ('break', 'continue'):
                bad = True
                break
            m += 1
        if bad:
            continue
        e_text = src[place[0].start:place[-1].end]
        hdr_old = src[t.start:st[bo].end]
        hdr_new = (f'; {{ let mut __m{k}: usize = 0; while __m{k} < {e_text}.len() {{ let mut __x{k} = {e_text}[__m{k}].clone(); {{ let {x} = &mut __x{k};')
        edits.append((t.start, st[bo].end, _keep_newlines(hdr_old, hdr_new)))
        edits.append((st[bc].end, st[bc].end, f' {e_text}.set(__m{k}, __x{k}); __m{k} = __m{k} + 1; }} }}'))
        lowered.append(k)
    out, pos = [], 0
    for a, b, rep in sorted(edits):
        out.append(src[pos:a])
        out.append(rep)
        pos = b
    out.append(src[pos:])
    return ''.join(out), lowered


R15_REVERSED = re.compile(r'let mut __i(\d+): usize = __v\d+\.len\(\); while __i\d+ > 0')


def r22_adapters(src):
    """R22: iterator adapter chains with a closure are desugared into loops, the closure body kept verbatim:
         X.iter().all(|v| B)            -> { let mut __all = true;  for v in X.iter() { if !(B) { __all = false; break; } } __all }
         X.iter().any(|v| B)            -> { let mut __any = false; for v in X.iter() { if B { __any = true; break; } } __any }
         X.iter().filter(|v| B).count() -> { let mut __cnt: usize = 0; for v in X.iter() { if B { __cnt = __cnt + 1; } } __cnt }
       (std semantics of all/any/filter+count over a slice iterator, including short-circuiting)."""
    n = 0
    src, k = apply_pattern(src, '$X:chain . iter ( ) . filter ( | $V:id | $B:args ) . count ( )',
                           '({ let mut __cnt: usize = 0; for $V in $X.iter() { if $B { __cnt = __cnt + 1; } } __cnt })')
    n += k
    src, k = apply_pattern(src, '$X:chain . iter ( ) . all ( | $V:id | $B:args )',
                           '({ let mut __all = true; for $V in $X.iter() { if !($B) { __all = false; break; } } __all })')
    n += k
    src, k = apply_pattern(src, '$X:chain . iter ( ) . for_each ( | $V:id | $B:block ) ;', 'for $V in $X.iter() $B')
    n += k
    src, k = apply_pattern(src, '$X:chain . iter ( ) . any ( | $V:id | $B:args )',
                           '({ let mut __any = false; for $V in $X.iter() { if $B { __any = true; break; } } __any })')
    n += k
    return src, n


# ---------------------------------------------------------------- R24: expansion of a local macro_rules! macro

def find_macro_rules(src, name):
    """locate `macro_rules! NAME { (MATCHER) => { BODY }; }` (exactly one rule) in src.
    returns (byte_start, byte_end, matcher_tokens, body_tokens, src) -- token lists are significant tokens."""
    st = sig(lex(src))
    hits = []
    for i, t in enumerate(st):
        if t.kind == 'id' and t.text == 'macro_rules' and i + 3 < len(st) and st[i + 1].text == '!' and st[i + 2].text == name and st[i + 3].text in ('{', '('):
            hits.append(i)
    if len(hits) != 1:
        raise AnchorError(f'macro_rules! {name}: found {len(hits)} definitions')
    i = hits[0]
    o = i + 3
    c = match_close(st, o)
    # one rule:  ( MATCHER ) => { BODY } [;]
    m_o = o + 1
    if st[m_o].text not in ('(', '[', '{'):
        raise AnchorError(f'macro_rules! {name}: unsupported rule shape')
    m_c = match_close(st, m_o)
    if not (st[m_c + 1].text == '=' and st[m_c + 2].text == '>' and st[m_c + 3].text in ('{', '(', '[')):
        raise AnchorError(f'macro_rules! {name}: unsupported rule shape')
    b_o = m_c + 3
    b_c = match_close(st, b_o)
    rest = [t for t in st[b_c + 1:c] if not (t.kind == 'p' and t.text == ';')]
    if rest:
        raise AnchorError(f'macro_rules! {name}: more than one rule (only single-rule macros are expanded)')
    end = st[c].end
    # trailing `;` not part of the item
    return st[i].start, end, st[m_o + 1:m_c], st[b_o + 1:b_c]


def _parse_matcher(toks):
    """-> list of ('var', name) | ('lit', text) | ('rep', [elements], sep)"""
    out = []
    i = 0
    while i < len(toks):
        t = toks[i]
        if t.text == '$' and i + 1 < len(toks) and toks[i + 1].text == '(':
            c = match_close(toks, i + 1)
            inner = _parse_matcher(toks[i + 2:c])
            sep = None
            j = c + 1
            if j < len(toks) and toks[j].text not in ('+', '*', '?'):
                sep = toks[j].text
                j += 1
            if j >= len(toks) or toks[j].text not in ('+', '*'):
                raise AnchorError('macro matcher: unsupported repetition')
            out.append(('rep', inner, sep))
            i = j + 1
            continue
        if t.text == '$' and i + 3 < len(toks) and toks[i + 2].text == ':':
            out.append(('var', toks[i + 1].text))
            i += 4
            continue
        out.append(('lit', t.text))
        i += 1
    return out


def _split_args(src, toks):
    """split invocation tokens at top-level commas -> list of token lists"""
    parts, cur, i = [], [], 0
    while i < len(toks):
        t = toks[i]
        if t.kind == 'p' and t.text in ('(', '[', '{'):
            c = match_close(toks, i)
            cur.extend(toks[i:c + 1])
            i = c + 1
            continue
        if t.kind == 'p' and t.text == ',':
            parts.append(cur)
            cur = []
        else:
            cur.append(t)
        i += 1
    if cur:
        parts.append(cur)
    return parts


def r24_expand_macro(body, name, file_src):
    """replace every `NAME!(args)` in body by the (single) rule body of macro_rules! NAME found in file_src, `$x` substituted by the
    argument text, `$( ... $x ... ) sep +` repeated over the arguments bound by the matcher's repetition.  Purely textual, like rustc's
    expansion for this macro shape (comma separated fragments, at most one trailing repetition).  Returns (body, count, (start, end))."""
    d_a, d_b, m_toks, b_toks = find_macro_rules(file_src, name)
    matcher = _parse_matcher(m_toks)
    # matcher must be comma separated single-token elements + optional trailing repetition
    groups = []   # per comma-separated position: list of elements
    cur = []
    for el in matcher:
        if el[0] == 'lit' and el[1] == ',':
            groups.append(cur)
            cur = []
        else:
            cur.append(el)
    if cur:
        groups.append(cur)
    st = sig(lex(body))
    edits = []
    n = 0
    i = 0
    while i < len(st):
        t = st[i]
        if t.kind == 'id' and t.text == name and i + 2 < len(st) and st[i + 1].text == '!' and st[i + 2].text in ('(', '[', '{') \
                and not (i > 0 and st[i - 1].text == '!'):
            o = i + 2
            c = match_close(st, o)
            args = _split_args(body, st[o + 1:c])
            env, reps = {}, []
            gi = 0
            ai = 0
            ok = True
            while gi < len(groups):
                g = groups[gi]
                if len(g) == 1 and g[0][0] == 'rep':
                    inner, sep = g[0][1], g[0][2]
                    if sep != ',':
                        raise AnchorError(f'{name}!: repetition separator `{sep}` not supported')
                    while ai < len(args):
                        a = args[ai]
                        e2 = {}
                        k = 0
                        for el in inner:
                            if el[0] == 'lit':
                                if k >= len(a) or a[k].text != el[1]:
                                    ok = False
                                k += 1
                            else:
                                e2[el[1]] = body[a[k].start:a[-1].end] if k < len(a) else ''
                                k = len(a)
                        reps.append(e2)
                        ai += 1
                    gi += 1
                    continue
                if ai >= len(args):
                    ok = False
                    break
                a = args[ai]
                k = 0
                for el in g:
                    if el[0] == 'lit':
                        if k >= len(a) or a[k].text != el[1]:
                            ok = False
                        k += 1
                    else:
                        env[el[1]] = body[a[k].start:a[-1].end] if k < len(a) else ''
                        k = len(a)
                ai += 1
                gi += 1
            if not ok or ai != len(args):
                raise AnchorError(f'{name}!: invocation does not match the macro rule')
            # substitute in the body tokens (emitted with single spaces; `$x` -> text)
            def subst(toks, e):
                out, j = [], 0
                while j < len(toks):
                    u = toks[j]
                    if u.text == '$' and j + 1 < len(toks) and toks[j + 1].text == '(':
                        cc = match_close(toks, j + 1)
                        sep2 = None
                        k2 = cc + 1
                        if k2 < len(toks) and toks[k2].text not in ('+', '*'):
                            sep2 = toks[k2].text
                            k2 += 1
                        pieces = [subst(toks[j + 2:cc], dict(e, **r)) for r in reps]
                        out.append((' ' + (sep2 or '') + ' ').join(pieces))
                        j = k2 + 1
                        continue
                    if u.text == '$' and j + 1 < len(toks) and toks[j + 1].kind == 'id':
                        nm = toks[j + 1].text
                        if nm not in e:
                            raise AnchorError(f'{name}!: `${nm}` is not bound by the matcher')
                        out.append(e[nm])
                        j += 2
                        continue
                    # punctuation that is adjacent in the macro text stays adjacent (`::`, `=>`, `->`, `&&` ...)
                    if u.kind == 'p' and j + 1 < len(toks) and toks[j + 1].kind == 'p' and toks[j + 1].start == u.end and out is not None:
                        glued = u.text
                        while j + 1 < len(toks) and toks[j + 1].kind == 'p' and toks[j + 1].start == toks[j].end and toks[j + 1].text in (':', '=', '>', '&', '|', '-', '.', '<') and toks[j].text in (':', '=', '-', '&', '|', '.', '<', '>'):
                            glued += toks[j + 1].text
                            j += 1
                        out.append(glued)
                        j += 1
                        continue
                    out.append(u.text)
                    j += 1
                return ' '.join(out)
            text = subst(b_toks, env)
            # `a . b` spacing is harmless; `$fn . $event` becomes `self . messages`
            end = st[c].end
            if c + 1 < len(st) and st[c + 1].text == ';':
                end = st[c + 1].end
            edits.append((t.start, end, _keep_newlines(body[t.start:end], '{ ' + text + ' }')))
            n += 1
            i = c + 1
            continue
        i += 1
    out, pos = [], 0
    for a, b, rep in edits:
        out.append(body[pos:a])
        out.append(rep)
        pos = b
    out.append(body[pos:])
    return ''.join(out), n, (d_a, d_b)
