#!/usr/bin/env python3
"""Generates units/U-memdoc/unit.rs (contracts only) from the same field table as tools/gen_sqlwrite.py: the oracle
'every field of the record is kept under the key of the same name'."""
import os, importlib.util
ROOT = os.path.dirname(os.path.dirname(os.path.abspath(__file__)))
spec = importlib.util.spec_from_file_location('gs', os.path.join(ROOT, 'tools', 'gen_sqlwrite.py'))
# read the table without executing the generator's side effects
src = open(os.path.join(ROOT, 'tools', 'gen_sqlwrite.py')).read()
tbl = src[src.index('C = ['):src.index(']\ndef val')+1]
ns = {}
exec(tbl, ns)
C = ns['C']
def jv(kind, f):
    fld = 'r#type' if f == 'type' else f
    return {'s': f'JsonV::Str(d.{fld}@)', 'o': f'opt_json(d.{fld})', 'l': f'JsonV::Int(d.{fld} as int)', 'i': f'JsonV::Int(d.{fld} as int)', 'b': f'JsonV::Bool(d.{fld})',
            'mstate': f'mstate_json(d.{fld})', 'status': f'status_json(d.{fld})', 'runas': f'runas_json(d.{fld})', 'catalog': f'catalog_json(d.{fld})'}[kind]
out = [open(os.path.join(ROOT, 'units', 'U-memdoc', 'head.rs.in')).read()]
for mod, file, st, coll, table, fields in C:
    ins = ''.join(f'.insert("{f}"@, {jv(k, f)})' for f, k in fields)
    keys = [f for f, _ in fields]
    reveals = ' '.join(f'reveal_strlit("{k}");' for k in keys)
    facts = []
    for a in range(len(keys)):
        for b in range(a + 1, len(keys)):
            x, y = keys[a], keys[b]
            if len(x) != len(y):
                facts.append(f'assert("{x}"@.len() != "{y}"@.len());')
            else:
                k = next(i for i in range(len(x)) if x[i] != y[i])
                facts.append(f'assert("{x}"@[{k}] != "{y}"@[{k}]);')
    ens = ', '.join(f'"{keys[a]}"@ != "{keys[b]}"@' for a in range(len(keys)) for b in range(a + 1, len(keys)))
    out.append(f'''
// the keys of a {table} document are pairwise different texts (string literals are opaque to the solver until revealed)
pub proof fn lemma_{mod}_keys()
    ensures {ens}
{{
    {reveals}
    {' '.join(facts)}
}}''')
    out.append(f'''
// ---------------------------------------------------------------- {table}
pub open spec fn {mod}_doc_of(d: data::{st}) -> Map<Seq<char>, JsonV> {{
    Map::<Seq<char>, JsonV>::empty(){ins}
}}
impl data::{st} {{
//@@ extract file=acts/src/store/db/mem/impl/{file}.rs in="impl DbDocument for {st}" item="fn doc" name=mem::{st}::doc
//@@ rw R7 `Result < HashMap < String , JsonValue > >` => `Result<HashMap>`
//@@ rw R7 `$K:lit . to_string ( )` => `str_to_string($K)`
//@@ rw R7 `json ! ( self . $F:id . clone ( ) )` => `json_of_ref(&self.$F)`
//@@ rw R7 `json ! ( self . $F:id )` => `json_of_ref(&self.$F)`
//@@ proof before=Ok#1
        proof {{
            lemma_{mod}_keys();
            //# Q7-the-document-has-every-field-under-its-own-name
            assert(map@ =~= {mod}_doc_of(*self));
        }}
//@@ spec
    ensures
        //# Q7-doc-keeps-every-field-of-the-record
        ret is Ok && ret->Ok_0@ == {mod}_doc_of(*self),
//@@ end
}}''')
out.append('\n} // verus!\nfn main() {}\n')
open(os.path.join(ROOT, 'units', 'U-memdoc', 'unit.rs'), 'w').write(''.join(out))
print('written')
