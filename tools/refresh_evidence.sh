#!/bin/bash
# rewrite every evidence file from a quick run on the CURRENT /repo tree (run before committing: committed evidence must come from the unchanged tree)
cd /verif
git -C /repo status --short | grep -q . && { echo "/repo not clean: evidence would not describe the unchanged tree"; exit 2; }
rc=0
for p in $(python3 -c "import json;print(' '.join(c['property_id'] for c in json.load(open('MANIFEST.json'))['checks']))"); do
  ./check $p --tier quick > /tmp/refresh_$p.log 2>&1; r=$?
  echo "$p exit=$r $(tail -1 /tmp/refresh_$p.log | cut -c1-150)"
  [ $r -ne 0 ] && rc=1
done
exit $rc
