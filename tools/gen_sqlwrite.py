#!/usr/bin/env python3
"""Generates units/U-sqlwrite/unit.rs (contracts only -- the functions are cut out of /repo at check time) from the table below:
per collection the data struct, the table name and, per field, its column (= the field's own name) and value kind.  The table is the
statement 'every field is stored in the column of the same name' written out; it is the ORACLE, not a copy of the code."""
import os, re
ROOT = os.path.dirname(os.path.dirname(os.path.abspath(__file__)))
def camel(s): return ''.join(p.capitalize() for p in s.split('_'))
C = [
 # (module, file, struct, Collection type, table, [(field, kind)]); kind: s String, o Option<String>, l i64, i i32, b bool, state (MessageState as_ref), status (i8), enumref
 ('task', 'task', 'Task', 'TaskCollection', 'tasks', [('id','s'),('pid','s'),('tid','s'),('node_data','s'),('kind','s'),('prev','o'),('name','s'),('state','s'),('data','s'),('err','o'),('start_time','l'),('end_time','l'),('hooks','s'),('timestamp','l')]),
 ('proc', 'proc', 'Proc', 'ProcCollection', 'procs', [('id','s'),('state','s'),('mid','s'),('name','s'),('start_time','l'),('end_time','l'),('timestamp','l'),('model','s'),('env','s'),('err','o')]),
 ('model', 'model', 'Model', 'ModelCollection', 'models', [('id','s'),('name','s'),('ver','i'),('size','i'),('create_time','l'),('update_time','l'),('data','s'),('timestamp','l')]),
 ('event', 'event', 'Event', 'EventCollection', 'events', [('id','s'),('name','s'),('mid','s'),('ver','i'),('uses','s'),('params','s'),('create_time','l'),('timestamp','l')]),
 ('message', 'message', 'Message', 'MessageCollection', 'messages', [('id','s'),('tid','s'),('name','s'),('state','mstate'),('type','s'),('model','s'),('pid','s'),('nid','s'),('mid','s'),('key','s'),('uses','s'),('inputs','s'),('outputs','s'),('tag','s'),('start_time','l'),('end_time','l'),('chan_id','s'),('chan_pattern','s'),('create_time','l'),('update_time','l'),('retry_times','i'),('status','status'),('timestamp','l')]),
 ('package', 'package', 'Package', 'PackageCollection', 'packages', [('id','s'),('desc','s'),('icon','s'),('doc','s'),('version','s'),('schema','s'),('run_as','runas'),('resources','s'),('catalog','catalog'),('built_in','b'),('create_time','l'),('update_time','l'),('timestamp','l')]),
]
def val(kind, f):
    fld = 'r#type' if f == 'type' else f
    return {'s': f'SqlV::Str(d.{fld}@)', 'o': f'SqlV::OptStr(opt_view(d.{fld}))', 'l': f'SqlV::I64(d.{fld} as int)', 'i': f'SqlV::I32(d.{fld} as int)', 'b': f'SqlV::Bool(d.{fld})',
            'mstate': f'SqlV::Str(mstate_str(d.{fld}))', 'status': f'SqlV::I8(status_code(d.{fld}))', 'runas': f'SqlV::Str(runas_str(d.{fld}))', 'catalog': f'SqlV::Str(catalog_str(d.{fld}))'}[kind]
head = open(os.path.join(ROOT, 'units', 'U-sqlwrite', 'head.rs.in')).read()
out = [head]
for mod, file, st, coll, table, fields in C:
    variants = ''.join(f' CollectionIden::{camel(f)} => "{f}"@,' for f, _ in fields)
    pairs = ', '.join(f'("{f}"@, {val(k, f)})' for f, k in fields)
    upairs = ', '.join(f'("{f}"@, {val(k, f)})' for f, k in fields if f != 'id')
    out.append(f'''
// ---------------------------------------------------------------- {table}
pub mod {mod} {{
use super::*;
//@@ extract file=store/sqlite/src/collection/{file}.rs item="enum CollectionIden" name={mod}::CollectionIden
//@@ opt dropderive=Iden
//@@ rw R17 `enum CollectionIden` => `pub enum CollectionIden`
//@@ end
// `#[derive(Iden)] #[iden = "{table}"]`: the column name is the snake_case of the variant (ASSUMED, derive-generated)
impl Iden for CollectionIden {{
    open spec fn col_name(&self) -> Seq<char> {{
        match self {{ CollectionIden::Table => "{table}"@,{variants} }}
    }}
}}
// oracle: every column holds the field of the same name (the names U-sqlmap's from_row reads)
pub open spec fn cols_of(d: data::{st}) -> Seq<(Seq<char>, SqlV)> {{
    seq![{pairs}]
}}
pub open spec fn set_cols_of(d: data::{st}) -> Seq<(Seq<char>, SqlV)> {{
    seq![{upairs}]
}}
pub struct {coll} {{ pub conn: DbConnection }}
impl {coll} {{
//@@ extract file=store/sqlite/src/collection/{file}.rs in="impl DbCollection for {coll}" item="fn create" name=sqlite::{st}::create
//@@ rw R7 `& Self :: Item` => `&data::{st}`
//@@ rw R7 `self . conn . get ( ) . unwrap ( )` => `self.conn.get_conn()`
//@@ rw R7 `let ( sql , sql_values ) = SeaQuery :: insert ( ) . into_table ( $T:chain ) . columns ( [ $C:args ] ) . values ( [ $V:args ] ) . map_err ( map_db_err ) ? . build_rusqlite ( SqliteQueryBuilder ) ;` => `let built = sea_insert($T, [$C], [$V])?;`
//@@ rw R7 `conn . execute ( sql . as_str ( ) , & * sql_values . as_params ( ) ) . map_err ( map_db_err ) ?` => `conn.execute(&built)?`
//@@ rw R7 `Into :: < i8 > :: into ( data . status ) . into ( )` => `status_value(data.status)`
//@@ proof after=sea_insert#1
        proof {{
            broadcast use axiom_expr_of;
            //# Q6-create-pairs-every-column-with-the-field-of-the-same-name
            assert(built@->Insert_pairs =~= cols_of(data));
        }}
//@@ spec
    ensures
        //# Q6-create-writes-every-field-into-its-own-column
        ret is Ok ==> final(db).executed == old(db).executed.push(Stmt::Insert {{ table: "{table}"@, pairs: cols_of(*data) }}),
        //# Q6-a-refused-statement-writes-nothing
        ret is Err ==> *final(db) == *old(db),
//@@ end
//@@ extract file=store/sqlite/src/collection/{file}.rs in="impl DbCollection for {coll}" item="fn update" name=sqlite::{st}::update
//@@ rw R7 `& Self :: Item` => `&data::{st}`
//@@ rw R7 `self . conn . get ( ) . unwrap ( )` => `self.conn.get_conn()`
//@@ rw R7 `let ( sql , sql_values ) = SeaQuery :: update ( ) . table ( $T:chain ) . values ( [ $V:args ] ) . and_where ( SeaExpr :: col ( $I:chain ) . eq ( data . id ( ) ) ) . build_rusqlite ( SqliteQueryBuilder ) ;` => `let built = sea_update($T, [$V], $I, data.id());`
//@@ rw R7 `conn . execute ( sql . as_str ( ) , & * sql_values . as_params ( ) ) . map_err ( map_db_err ) ?` => `conn.execute(&built)?`
//@@ rw R7 `Into :: < i8 > :: into ( model . status ) . into ( )` => `status_value(model.status)`
//@@ proof after=sea_update#1
        proof {{
            broadcast use axiom_expr_of;
            //# Q6-update-pairs-every-column-with-the-field-of-the-same-name
            assert(built@->Update_pairs =~= set_cols_of(model));
        }}
//@@ spec
    ensures
        //# Q6-update-sets-every-field-in-its-own-column-of-the-row-with-that-id
        ret is Ok ==> final(db).executed == old(db).executed.push(Stmt::Update {{ table: "{table}"@, pairs: set_cols_of(*data), id_col: "id"@, id: data.id@ }}),
        //# Q6-a-refused-statement-writes-nothing
        ret is Err ==> *final(db) == *old(db),
//@@ end
}}
}}''')
out.append('\n} // verus!\nfn main() {}\n')
open(os.path.join(ROOT, 'units', 'U-sqlwrite', 'unit.rs'), 'w').write(''.join(out))
print('written')
