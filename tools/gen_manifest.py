#!/usr/bin/env python3
"""Generate /verif/MANIFEST.json from tools/claims.json (per-property claim texts) + units/index.json.
A property is listed under `checks` only if tools/claims.json marks it claimed; everything else goes to not_applicable."""
import json
import os

ROOT = os.path.dirname(os.path.dirname(os.path.abspath(__file__)))
claims = json.load(open(os.path.join(ROOT, 'tools', 'claims.json')))
index = json.load(open(os.path.join(ROOT, 'units', 'index.json')))
props = [json.loads(l) for l in open(os.path.join(ROOT, 'properties.jsonl'))]

checks = []
na = []
engines = {}
for p in props:
    pid = p['id']
    c = claims.get(pid, {})
    units = [u for u, m in index.items() if pid in m.get('props', [])]
    if c.get('claimed') and units:
        kinds = sorted(set(index[u].get('engine', 'verus') for u in units))
        eng = '+'.join({'verus': 'vx+verus', 'kani': 'vx+kani', 'bounded': 'bounded-stand-in'}[k] for k in kinds)
        checks.append({
            'property_id': pid,
            'quick_cmd': f'./check {pid} --tier quick',
            'thorough_cmd': f'./check {pid} --tier thorough',
            'evidence_file': f'evidence/{pid}.json',
            'replay_cmd_template': './check --replay {path}',
            'engine': eng,
            'technique': c.get('technique', 'contract-based deductive verification (Verus) of functions extracted verbatim from /repo'),
            'level_claimed': {'category': 'proof', 'text': c['text'], 'design_ref': c.get('design_ref', f'DESIGN.md section 5 {pid}')},
            'level_note': c['note'] + ' Units: ' + ', '.join(units) + '.',
        })
        for u in units:
            k = index[u].get('engine', 'verus')
            name = {'verus': 'vx+verus', 'kani': 'vx+kani', 'bounded': 'bounded-stand-in'}[k]
            engines.setdefault(name, set()).add(pid)
    else:
        na.append({'property_id': pid, 'reason': c.get('na_reason', 'no check built yet for this property (see DESIGN.md section 9)')})

kind_text = {
    'vx+verus': 'mechanical extraction of the real functions from /repo (vx, closed list of rewrites) + contracts spliced in + Verus/Z3 discharges every obligation; per-function canary twins guard against vacuity',
    'vx+kani': 'Kani/CBMC harnesses appended (cfg(kani)) to a scratch copy of the real crate; loop-free full-domain harnesses are complete proofs, others are labelled bounded',
    'bounded-stand-in': 'execution of the real function over an exhaustively enumerated small domain; labelled bounded, never counted as proved',
}
manifest = {
    'version': 1,
    'setup_cmd': './setup.sh',
    'hooks': {
        'guard': 'none (no source hooks: the machinery works on text extracted from /repo and on scratch copies)',
        'enable': 'n/a (nothing to enable)',
        'baseline_off_cmd': 'cd /repo && cargo nextest run --workspace --no-fail-fast --tool-config-file pb:/w/lib/nextest.toml --profile pb --test-threads 8 --offline',
        'source_commits': [],
        'add_only': True,
    },
    'engines': [{'name': n, 'path': 'vx/', 'serves_properties': sorted(s), 'kind_free_text': kind_text[n]} for n, s in sorted(engines.items())],
    'checks': checks,
    'not_applicable': na,
    'notes': claims.get('_notes', ''),
}
with open(os.path.join(ROOT, 'MANIFEST.json'), 'w') as f:
    json.dump(manifest, f, indent=1)
print('checks:', [c['property_id'] for c in checks])
print('not_applicable:', [n['property_id'] for n in na])
