#!/usr/bin/env python3
"""prints the per-property summary table of DESIGN.md section 10.11 from the evidence files, units/index.json and known_findings.json"""
import json, os, glob
R=os.path.dirname(os.path.dirname(os.path.abspath(__file__)))
idx=json.load(open(f'{R}/units/index.json')); kf=json.load(open(f'{R}/known_findings.json'))
print('| id | units | obligations discharged (quick tier) | functions under contract | bounded real-code drivers of the property | open known findings |')
print('|----|-------|------|------|------|------|')
for p in [f'C{i:02d}' for i in range(1,21)]:
    ev=json.load(open(f'{R}/evidence/{p}.json'))
    cov=ev.get('coverage',{})
    units=[u for u,m in idx.items() if p in m.get('props',[])]
    drivers=sorted({f['test'].replace('verif_replay_','') for u in units for f in idx[u].get('fallback',[]) if p in f.get('props',[p])})
    nfun=cov.get('functions_under_contract'); nfun=len(nfun) if isinstance(nfun,list) else nfun
    openf=[f for f in kf['findings'] if f.get('property')==p and f.get('status','open')=='open']
    print(f"| {p} | {', '.join(units)} | {cov.get('discharged')} of {cov.get('obligations')} | {nfun} | {', '.join(drivers) or '-'} | {len(openf)} |")
