#!/bin/bash
# apply every seeded change to /repo in turn, run the quick check of its property, record the outcome, undo the change.
# (never run while another check is using /repo)
cd /verif
OUT=seeded/SWEEP.md
echo "# seed sweep $(date -u +%FT%TZ) on /repo $(git -C /repo log --format=%h -1)" > $OUT
echo "" >> $OUT
echo "| seed | property | exit | outcome |" >> $OUT
echo "|------|----------|------|---------|" >> $OUT
git -C /repo status --short | grep -q . && { echo "/repo not clean"; exit 2; }
for d in seeded/*/; do
  n=$(basename $d)
  p=$(python3 -c "import json;print(json.load(open('$d/meta.json'))['property'])")
  if ! git -C /repo apply --check /verif/$d/patch.diff 2>/dev/null; then echo "| $n | $p | - | patch does not apply |" >> $OUT; continue; fi
  git -C /repo apply /verif/$d/patch.diff
  ./check $p --tier quick > /tmp/sweep_$n.log 2>&1; rc=$?
  git -C /repo checkout -- .
  v=$(grep -c "^VIOLATION" /tmp/sweep_$n.log)
  first=$(grep "^VIOLATION" /tmp/sweep_$n.log | head -1 | sed 's/.*replay=\/verif\/build\/replay\///' | cut -c1-110)
  und=$(grep -c "^UNDECIDED" /tmp/sweep_$n.log)
  echo "| $n | $p | $rc | $v violation line(s), $und undecided line(s); first: $first |" >> $OUT
done
./tools/refresh_evidence.sh > /dev/null 2>&1   # committed evidence must describe the unchanged tree
cat $OUT
