#!/bin/bash
# apply every seeded change in turn to the repository under test, run the quick check of its property, record the outcome, undo the change.
# The repository is $VERIF_REPO (default /repo; never run against /repo while another check is using it).  With `vp run --with-repo`:
#   vp run --with-repo -- bash -c 'VERIF_REPO=$VP_RUN_REPO tools/seed_sweep.sh'
cd "$(dirname "$0")/.."
REPO=${VERIF_REPO:-/repo}
export VERIF_REPO=$REPO
OUT=seeded/SWEEP.md
echo "# seed sweep $(date -u +%FT%TZ) on $(git -C $REPO log --format=%h -1)" > $OUT
echo "" >> $OUT
echo "| seed | property | exit | outcome |" >> $OUT
echo "|------|----------|------|---------|" >> $OUT
git -C $REPO status --short | grep -q . && { echo "$REPO not clean"; exit 2; }
for d in seeded/*/; do
  [ -f $d/meta.json ] || continue
  n=$(basename $d)
  p=$(python3 -c "import json;print(json.load(open('$d/meta.json'))['property'])")
  if ! git -C $REPO apply --check $PWD/$d/patch.diff 2>/dev/null; then echo "| $n | $p | - | patch does not apply |" >> $OUT; continue; fi
  git -C $REPO apply $PWD/$d/patch.diff
  ./check $p --tier quick > /tmp/sweep_$n.log 2>&1; rc=$?
  git -C $REPO checkout -- .
  v=$(grep -c "^VIOLATION" /tmp/sweep_$n.log)
  first=$(grep "^VIOLATION" /tmp/sweep_$n.log | head -1 | sed 's/.*replay=.*build\/replay\///' | cut -c1-110)
  und=$(grep -c "^UNDECIDED" /tmp/sweep_$n.log)
  echo "| $n | $p | $rc | $v violation line(s), $und undecided line(s); first: $first |" >> $OUT
done
if [ "$REPO" = "/repo" ]; then ./tools/refresh_evidence.sh > /dev/null 2>&1; fi   # committed evidence must describe the unchanged tree
cat $OUT
