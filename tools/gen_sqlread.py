#!/usr/bin/env python3
"""Generates units/U-sqlread/unit.rs (contracts only -- the functions are cut out of /repo at check time): per SQLite collection the table name and
the column list in field order (the same table as tools/gen_sqlwrite.py: the ORACLE 'every field is read from the column of the same name, in the
order the row mapper expects').  Functions: query, find, exists, delete."""
import os
ROOT = os.path.dirname(os.path.dirname(os.path.abspath(__file__)))
def camel(s): return ''.join(p.capitalize() for p in s.split('_'))
C = [
 ('task', 'Task', 'TaskCollection', 'tasks', ['id','pid','tid','node_data','kind','prev','name','state','data','err','start_time','end_time','hooks','timestamp']),
 ('proc', 'Proc', 'ProcCollection', 'procs', ['id','state','mid','name','start_time','end_time','timestamp','model','env','err']),
 ('model', 'Model', 'ModelCollection', 'models', ['id','name','ver','size','create_time','update_time','data','timestamp']),
 ('event', 'Event', 'EventCollection', 'events', ['id','name','mid','ver','uses','params','create_time','timestamp']),
 ('message', 'Message', 'MessageCollection', 'messages', ['id','tid','name','state','type','model','pid','nid','mid','key','uses','inputs','outputs','tag','start_time','end_time','chan_id','chan_pattern','create_time','update_time','retry_times','status','timestamp']),
 ('package', 'Package', 'PackageCollection', 'packages', ['id','desc','icon','doc','version','schema','run_as','resources','catalog','built_in','create_time','update_time','timestamp']),
]
head = open(os.path.join(ROOT, 'units', 'U-sqlread', 'head.rs.in')).read()
out = [head]
for mod, st, coll, table, fields in C:
    variants = ''.join(f' CollectionIden::{camel(f)} => "{f}"@,' for f in fields)
    cols = ', '.join(f'"{f}"@' for f in fields)
    out.append(f'''
// ---------------------------------------------------------------- {table}
pub mod {mod} {{
use super::*;
//@@ extract file=store/sqlite/src/collection/{mod}.rs item="enum CollectionIden" name={mod}::CollectionIden
//@@ opt dropderive=Iden
//@@ rw R17 `enum CollectionIden` => `pub enum CollectionIden`
//@@ end
// `#[derive(Iden)] #[iden = "{table}"]`: the column name is the snake_case of the variant (ASSUMED, derive-generated)
impl ColRef for CollectionIden {{
    open spec fn cname(&self) -> Seq<char> {{
        match self {{ CollectionIden::Table => "{table}"@,{variants} }}
    }}
}}
// oracle: the row mapper reads the columns of the record in this order (U-sqlmap: from_row reads every field from the column of its own name)
pub open spec fn all_cols() -> Seq<Seq<char>> {{ seq![{cols}] }}
pub struct {coll} {{ pub conn: DbConnection }}
pub struct Rec {{}}     // data::{st} (its mapper `from_row` is under contract in U-sqlmap)
impl {coll} {{
//@@ extract file=store/sqlite/src/collection/{mod}.rs in="impl DbCollection for {coll}" item="fn query" name=sqlite::{st}::query
//@@ rw R7 `acts :: PageData < Self :: Item >` => `PageData<Rec>`
//@@ rw R7 `self . conn . get ( ) . unwrap ( )` => `self.conn.get_conn()`
//@@ rw R7 `let mut count_query = SeaQuery :: select ( ) ; count_query . from ( $T:chain ) . expr ( SeaFunc :: count ( SeaExpr :: col ( $I:args ) ) ) ;` => `let mut count_query = sel_count($T, $I);`
//@@ rw R7 `let mut query = SeaQuery :: select ( ) ; query . columns ( [ $C:args ] ) . from ( $T:chain ) ;` => `let mut query = sel_rows($T, [$C]);`
//@@ rw R7 `let ( sql , values ) = query . limit ( $L:args ) . offset ( $O:args ) . build_rusqlite ( SqliteQueryBuilder ) ;` => `let built = query.build_page($L, $O);`
//@@ rw R7 `let ( count_sql , count_values ) = count_query . build_rusqlite ( SqliteQueryBuilder ) ;` => `let count_built = count_query.build();`
//@@ rw R7 `conn . prepare ( count_sql . as_str ( ) ) . map_err ( map_db_err ) ? . query_row :: < usize , _ , _ > ( & * count_values . as_params ( ) , | row | row . get ( 0 ) ) . map_err ( map_db_err ) ?` => `conn.run_count(&count_built)?`
//@@ rw R7 `conn . prepare ( & sql ) . map_err ( map_db_err ) ? . query_map ( & * values . as_params ( ) , Self :: Item :: from_row ) . map_err ( map_db_err ) ? . map ( | v | v . unwrap ( ) ) . collect :: < Vec < _ > > ( )` => `conn.run_rows::<Rec>(&built)?`
//@@ rw R7 `count . div_ceil ( q . limit ( ) )` => `div_ceil_usize(count, q.limit())`
//@@ proof after=sel_rows#1
        proof {{
            //# Q4-the-page-statement-names-every-column-of-the-record-in-mapper-order
            assert(query.s@.columns =~= all_cols());
        }}
//@@ spec
    requires
        forall|i: int, j: int| 0 <= i < q.conds@.len() && 0 <= j < q.conds@[i].conds@.len() ==> translatable(#[trigger] q.conds@[i].conds@[j]),
        q.offset < usize::MAX,
    ensures
        //# Q4-a-query-runs-one-count-statement-and-one-page-statement-and-writes-nothing
        ret is Ok ==> final(db).executed.len() == old(db).executed.len() + 2 && final(db).rows == old(db).rows,
        //# Q4-the-count-statement-counts-the-filtered-records-of-the-table-without-any-window
        ret is Ok ==> final(db).executed[old(db).executed.len() as int] == (StmtR::Select(SelectAbs {{ table: "{table}"@, columns: Seq::empty(), count_of: Some("id"@),
            filter: filter_of(*q), id_eq: None, order: Seq::empty(), limit: None, offset: None }})),
        //# Q4-the-page-statement-selects-every-column-in-mapper-order-filtered-ordered-by-the-requested-keys-and-windowed
        ret is Ok ==> final(db).executed[old(db).executed.len() as int + 1] == (StmtR::Select(SelectAbs {{ table: "{table}"@, columns: all_cols(), count_of: None,
            filter: filter_of(*q), id_eq: None, order: order_of(q.order_by@), limit: Some(q_limit(*q)), offset: Some(q.offset as int) }})),
        //# Q3-the-answer-carries-the-count-of-the-count-statement-the-rows-of-the-page-statement-and-the-page-arithmetic
        ret is Ok ==> ret->Ok_0.count == count_result(final(db).executed[old(db).executed.len() as int], old(db).rows)
            && ret->Ok_0.rows@ == rows_result::<Rec>(final(db).executed[old(db).executed.len() as int + 1], old(db).rows)
            && ret->Ok_0.page_size as int == q_limit(*q) && ret->Ok_0.page_count as int == (ret->Ok_0.count as int + q_limit(*q) - 1) / q_limit(*q)
            && ret->Ok_0.page_num as int == q.offset as int / q_limit(*q) + 1,
//@@ loop 1
        invariant
            //# order-keys-so-far
            __v1@ == q.order_by@ && query.s@ == (SelectAbs {{ order: order_of(q.order_by@.take(__i1 as int)), ..query.s@ }}) && query.s@.table == "{table}"@ && query.s@.columns == all_cols()
                && query.s@.count_of is None && query.s@.filter == filter_of(*q) && query.s@.id_eq is None && query.s@.limit is None && query.s@.offset is None,
//@@ proof at=loop1
                proof {{
                    let o = q.order_by@;
                    assert(o.take(__i1 as int + 1) =~= o.take(__i1 as int).push(o[__i1 as int]));
                    assert(order_of(o.take(__i1 as int + 1)) =~= order_of(o.take(__i1 as int)).push((o[__i1 as int].0@, o[__i1 as int].1)));
                }}
//@@ proof at=afterloop1
            proof {{ assert(q.order_by@.take(q.order_by@.len() as int) =~= q.order_by@); }}
//@@ proof before=is_empty#2
        proof {{ assert(order_of(q.order_by@.take(0)) =~= Seq::<(Seq<char>, bool)>::empty()); if q.order_by@.len() == 0 {{ assert(order_of(q.order_by@) =~= Seq::<(Seq<char>, bool)>::empty()); }} }}
//@@ end
//@@ extract file=store/sqlite/src/collection/{mod}.rs in="impl DbCollection for {coll}" item="fn find" name=sqlite::{st}::find
//@@ rw R7 `Result < Self :: Item >` => `Result<Rec>`
//@@ rw R7 `self . conn . get ( ) . unwrap ( )` => `self.conn.get_conn()`
//@@ rw R7 `let ( sql , values ) = SeaQuery :: select ( ) . from ( $T:chain ) . columns ( [ $C:args ] ) . and_where ( SeaExpr :: col ( $I:chain ) . eq ( id ) ) . build_rusqlite ( SqliteQueryBuilder ) ;` => `let built = sel_by_id($T, [$C], $I, id);`
//@@ rw R7 `let mut stmt = conn . prepare ( sql . as_str ( ) ) . map_err ( map_db_err ) ? ;` => ``
//@@ rw R7 `stmt . query_row ( & * values . as_params ( ) , Self :: Item :: from_row ) . map_err ( map_db_err ) ?` => `conn.run_row::<Rec>(&built)?`
//@@ proof after=sel_by_id#1
        proof {{
            //# Q4-find-names-every-column-of-the-record-in-mapper-order
            assert(built.b@->Select_0.columns =~= all_cols());
        }}
//@@ spec
    ensures
        //# Q4-find-selects-every-column-in-mapper-order-of-the-row-with-that-id
        ret is Ok ==> final(db).executed == old(db).executed.push(StmtR::Select(SelectAbs {{ table: "{table}"@, columns: all_cols(), count_of: None, filter: None, id_eq: Some(id@), order: Seq::empty(), limit: None, offset: None }}))
            && final(db).rows == old(db).rows,
//@@ end
//@@ extract file=store/sqlite/src/collection/{mod}.rs in="impl DbCollection for {coll}" item="fn exists" name=sqlite::{st}::exists
//@@ rw R7 `self . conn . get ( ) . unwrap ( )` => `self.conn.get_conn()`
//@@ rw R7 `let ( sql , values ) = SeaQuery :: select ( ) . from ( $T:chain ) . expr ( SeaFunc :: count ( SeaExpr :: col ( $I:chain ) ) ) . and_where ( SeaExpr :: col ( $J:chain ) . eq ( id ) ) . build_rusqlite ( SqliteQueryBuilder ) ;` => `let built = sel_count_by_id($T, $I, $J, id);`
//@@ rw R7 `let mut stmt = conn . prepare ( sql . as_str ( ) ) . map_err ( map_db_err ) ? ;` => ``
//@@ rw R7 `stmt . query_row ( & * values . as_params ( ) , | row | row . get :: < usize , i64 > ( 0 ) ) . map_err ( map_db_err ) ?` => `conn.run_scalar(&built)?`
//@@ spec
    ensures
        //# Q4-exists-counts-the-rows-with-that-id
        ret is Ok ==> final(db).executed == old(db).executed.push(StmtR::Select(SelectAbs {{ table: "{table}"@, columns: Seq::empty(), count_of: Some("id"@), filter: None, id_eq: Some(id@), order: Seq::empty(), limit: None, offset: None }}))
            && final(db).rows == old(db).rows && ret->Ok_0 == (scalar_result(final(db).executed.last(), old(db).rows) > 0),
//@@ end
//@@ extract file=store/sqlite/src/collection/{mod}.rs in="impl DbCollection for {coll}" item="fn delete" name=sqlite::{st}::delete
//@@ rw R7 `self . conn . get ( ) . unwrap ( )` => `self.conn.get_conn()`
//@@ rw R7 `let ( sql , values ) = SeaQuery :: delete ( ) . from_table ( $T:chain ) . and_where ( SeaExpr :: col ( $I:chain ) . eq ( id ) ) . build_rusqlite ( SqliteQueryBuilder ) ;` => `let built = del_by_id($T, $I, id);`
//@@ rw R7 `conn . execute ( sql . as_str ( ) , & * values . as_params ( ) ) . map_err ( map_db_err ) ?` => `conn.execute(&built)?`
//@@ spec
    ensures
        //# Q4-delete-removes-the-row-with-that-id-from-its-own-table-and-nothing-else
        ret is Ok ==> final(db).executed == old(db).executed.push(StmtR::Delete {{ table: "{table}"@, id_col: "id"@, id: id@ }}),
        //# Q4-a-refused-delete-writes-nothing
        ret is Err ==> *final(db) == *old(db),
//@@ end
}}
}}''')
out.append('\n} // verus!\nfn main() {}\n')
open(os.path.join(ROOT, 'units', 'U-sqlread', 'unit.rs'), 'w').write(''.join(out))
print('written')
