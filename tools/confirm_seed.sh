#!/bin/bash
# confirm a seeded change delivered by a sub-agent in /tmp/seed-<ID> using the scratch worktree /tmp/wt-<ID>:
#   demo passes without the change, fails with it; the full suite passes with the change (demo not applied).
# On success the change is kept as /verif/seeded/<name>/ ; the worktree is removed afterwards (pass KEEPWT=1 to keep).
ID=$1; NAME=${2:-$ID}
WT=/tmp/wt-$ID; SD=/tmp/seed-$ID
export CARGO_TARGET_DIR=$WT/target CARGO_NET_OFFLINE=true
cd $WT || exit 2
git checkout -q -- . && git clean -qfd -e target
LOG=$SD/confirm.log; : > $LOG
DEMO=$(cat $SD/demo_cmd.txt | grep -v '^#' | grep cargo | head -1)
echo "demo cmd: $DEMO" | tee -a $LOG
git apply $SD/demo.diff || { echo "demo.diff does not apply" | tee -a $LOG; exit 2; }
( eval "$DEMO" ) >> $LOG 2>&1; R1=$?
echo "demo without change: exit=$R1" | tee -a $LOG
git apply $SD/patch.diff || { echo "patch.diff does not apply" | tee -a $LOG; exit 2; }
( eval "$DEMO" ) >> $LOG 2>&1; R2=$?
echo "demo with change: exit=$R2" | tee -a $LOG
git checkout -q -- . && git clean -qfd -e target
git apply $SD/patch.diff
cargo nextest run --workspace --no-fail-fast --offline --test-threads 8 > $SD/suite.log 2>&1; R3=$?
SUM=$(grep -E "tests run:" $SD/suite.log | tail -1)
echo "suite with change: exit=$R3 $SUM" | tee -a $LOG
if [ $R3 -ne 0 ]; then
  # timing-sensitive tests: retry the failed ones once, alone
  FAILED=$(grep -E "^\s+(FAIL|TIMEOUT)" $SD/suite.log | awk '{print $NF}' | sort -u)
  echo "retrying failed: $FAILED" | tee -a $LOG
  R3=0
  for t in $FAILED; do cargo nextest run --workspace --offline -E "test($t)" >> $SD/suite.log 2>&1 || R3=1; done
  echo "suite retry result: $R3" | tee -a $LOG
fi
git checkout -q -- . && git clean -qfd -e target
if [ $R1 -eq 0 ] && [ $R2 -ne 0 ] && [ $R3 -eq 0 ]; then
  mkdir -p /verif/seeded/$NAME
  cp $SD/patch.diff $SD/demo.diff $SD/demo_cmd.txt /verif/seeded/$NAME/
  cp $SD/notes.md /verif/seeded/$NAME/agent_notes.md 2>/dev/null
  echo "CONFIRMED $NAME" | tee -a $LOG
  RC=0
else
  echo "NOT CONFIRMED $NAME (R1=$R1 R2=$R2 R3=$R3)" | tee -a $LOG
  RC=1
fi
if [ -z "$KEEPWT" ]; then cd /; git -C /repo worktree remove --force $WT; fi
exit $RC
