#!/usr/bin/env python3
"""developer: run one registered bounded driver against /repo's working tree:  tools/run_driver.py <test name>"""
import json, os, sys
sys.path.insert(0, os.path.dirname(os.path.dirname(os.path.abspath(__file__))))
from vx import scratch, run as R
name = sys.argv[1]
for u, m in R.unit_index().items():
    for drv in m.get('fallback', []):
        if drv['test'] == name:
            ok, info = scratch.run_replay_driver(drv)
            print('passed' if ok else ('FAILED' if ok is False else 'NO RESULT (build error?)'), info.get('wall_s'))
            for l in info.get('failing_input', []): print(l)
            if ok is not True: print(info["tail"][-int(os.environ.get("TAIL","2500")):])
            sys.exit(0 if ok else 1)
print('no such driver'); sys.exit(2)
